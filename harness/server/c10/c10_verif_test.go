//go:build verif

package server

// Lock-step replay of Subscribe.tla behaviours on the real subscribe path
// (property C10: a subscription delivers exactly the requested range).
//
// One one-node server (embedded NATS, single-node Raft) serves every
// behaviour; each behaviour gets its own stream "c10-<id>" whose partition log
// is shaped by the behaviour's first steps through the real publish path
// (message timestamps come from the repository's mockable `timestamp`
// variable: message with offset o is stamped 10*(o+1)), `log.Clean()` for
// compaction / retention, direct `log.Append` for an uncommitted tail.
//
// Steps are intents:
//   Publish(keys)   one apiServer.Publish (AckPolicy ALL) per key
//   Tail(keys)      log.Append of one message per key, not committed
//   Commit          log.SetHighWatermark(newest)
//   Clean           log.Clean()
//   Roll            the split check of a cleaner tick (commitlog.VerifC10Roll ->
//                   checkAndPerformSplit): the active segment is rolled, the new
//                   active segment stays empty until the next publish
//   Restart         Server.Stop() and a new server over the same data directory
//                   (open subscriptions are closed first)
//   Readonly(b)     apiServer.SetStreamReadonly
//   Sub(id, req, n) apiServer.SubscribeInternal, then receive until the
//                   subscription ends or its loop blocks waiting for the HW, or
//                   (n >= 0) until n messages were received: the subscriber then
//                   stops receiving while the loop keeps one message in hand
//   Drain(id, n)    receive again from a subscription that was waiting or not
//                   drained
//   Cancel(id)      subscription.Close()
// "waiting" is observed, not timed: the commit log calls the verif gate
// "reader.before_wait_hw" when a committed reader is about to block; after
// that signal a short grace period must pass without a message or a status.
// A check that would report a violation re-executes the behaviour with a much
// longer grace period first (see checks/c10.py).
//
// After every step the abstract state is projected from the real log (every
// retained message read back with an uncommitted reader, segment files, HW,
// read-only flag).  The verdict is TLC's (Trace_Subscribe.tla).

import (
	"context"
	"fmt"
	"os"
	"path/filepath"
	"sort"
	"strconv"
	"strings"
	"sync/atomic"
	"testing"
	"time"

	client "github.com/liftbridge-io/liftbridge-api/v2/go"
	"google.golang.org/grpc/status"

	"github.com/liftbridge-io/liftbridge/server/commitlog"
)

const vC10Deadline = 20 * time.Second

type vC10Rec struct {
	Off int64  `json:"off"`
	Ts  int64  `json:"ts"`
	Key string `json:"key"`
}

type vC10State struct {
	Log  []vC10Rec `json:"log"`
	Segs []int64   `json:"segs"`
	HW   int64     `json:"hw"`
	Ro   bool      `json:"ro"`
}

type vC10Obs struct {
	A   string    `json:"a"`
	Err string    `json:"err"`
	Got []vC10Rec `json:"got"`
	St  string    `json:"st"`
}

type vC10Event struct {
	T    int                    `json:"t"`
	A    string                 `json:"a"`
	Args map[string]interface{} `json:"args"`
	St   vC10State              `json:"st"`
	Obs  vC10Obs                `json:"obs"`
}

type vC10Sub struct {
	sub    *subscription
	cancel context.CancelFunc
}

type vC10Run struct {
	t      *testing.T
	srv    *Server
	cfg    *Config
	p      *partition
	stream string
	id     int
	subs   map[string]*vC10Sub
	tmp    []*vC10Sub
	grace  time.Duration
}

var (
	vC10TsNext int64
	vC10Gate   = make(chan struct{}, 1024)
)

func vC10FlushGate() {
	for {
		select {
		case <-vC10Gate:
		default:
			return
		}
	}
}

// every retained message, committed or not
func vC10Scan(l commitlog.CommitLog) []vC10Rec {
	out := []vC10Rec{}
	if l.OldestOffset() == -1 {
		return out
	}
	rdr, err := l.NewReader(l.OldestOffset(), true)
	if err != nil {
		panic(fmt.Sprintf("scan reader: %v", err))
	}
	ctx, cancel := context.WithCancel(context.Background())
	cancel()
	buf := make([]byte, 28)
	for {
		m, off, ts, _, err := rdr.ReadMessage(ctx, buf)
		if err != nil {
			break
		}
		out = append(out, vC10Rec{Off: off, Ts: ts, Key: string(m.Key())})
	}
	return out
}

func (r *vC10Run) dir() string {
	return filepath.Join(r.srv.config.DataDir, "streams", r.stream, "0")
}

func (r *vC10Run) state() vC10State {
	segs := []int64{}
	ents, _ := os.ReadDir(r.dir())
	for _, e := range ents {
		if strings.HasSuffix(e.Name(), ".log") {
			b, err := strconv.ParseInt(strings.TrimSuffix(e.Name(), ".log"), 10, 64)
			if err == nil {
				segs = append(segs, b)
			}
		}
	}
	sort.Slice(segs, func(i, j int) bool { return segs[i] < segs[j] })
	return vC10State{Log: vC10Scan(r.p.log), Segs: segs, HW: r.p.log.HighWatermark(), Ro: r.p.log.IsReadonly()}
}

func vC10Req(m map[string]interface{}) *client.SubscribeRequest {
	req := &client.SubscribeRequest{Partition: 0, Reverse: vBool(m, "rev")}
	switch vStr(m, "start") {
	case "OFFSET":
		req.StartPosition = client.StartPosition_OFFSET
		req.StartOffset = vInt(m, "so")
	case "EARLIEST":
		req.StartPosition = client.StartPosition_EARLIEST
	case "LATEST":
		req.StartPosition = client.StartPosition_LATEST
	case "NEW_ONLY":
		req.StartPosition = client.StartPosition_NEW_ONLY
	case "TIMESTAMP":
		req.StartPosition = client.StartPosition_TIMESTAMP
		req.StartTimestamp = vInt(m, "stt")
	default:
		panic("unknown start " + vStr(m, "start"))
	}
	switch vStr(m, "stop") {
	case "ON_CANCEL":
		req.StopPosition = client.StopPosition_STOP_ON_CANCEL
	case "OFFSET":
		req.StopPosition = client.StopPosition_STOP_OFFSET
		req.StopOffset = vInt(m, "po")
	case "LATEST":
		req.StopPosition = client.StopPosition_STOP_LATEST
	case "TIMESTAMP":
		req.StopPosition = client.StopPosition_STOP_TIMESTAMP
		req.StopTimestamp = vInt(m, "pt")
	default:
		panic("unknown stop " + vStr(m, "stop"))
	}
	return req
}

// receive from the subscription until it ends or its loop is blocked on the HW, or
// until n messages were received (n >= 0; the subscriber then stops receiving: "more").
// armed: the loop may already be blocked, so no new gate signal is to be expected
// unless something wakes it up.
func (r *vC10Run) drain(s *vC10Sub, obs *vC10Obs, armed bool, n int64) {
	deadline := time.After(vC10Deadline)
	var grace <-chan time.Time
	if armed {
		grace = time.After(r.grace)
	}
	for {
		if n >= 0 && int64(len(obs.Got)) >= n {
			obs.St = "more"
			// let the loop read the next message and block handing it over
			time.Sleep(2 * time.Millisecond)
			return
		}
		select {
		case m := <-s.sub.Messages():
			obs.Got = append(obs.Got, vC10Rec{Off: m.Offset, Ts: m.Timestamp, Key: string(m.Key)})
			grace = nil
		case st := <-s.sub.Errors():
			obs.St = st.Code().String()
			return
		case <-vC10Gate:
			// a committed reader is about to wait for the HW
			grace = time.After(r.grace)
		case <-grace:
			obs.St = "wait"
			return
		case <-deadline:
			r.fail(fmt.Sprintf("behaviour %d: subscription neither ended nor blocked", r.id))
		}
	}
}

// never leave a subscribe loop blocked: Server.Stop() would wait for it forever
func (r *vC10Run) fail(msg string) {
	for _, s := range r.subs {
		s.sub.Close()
		s.cancel()
	}
	for _, s := range r.tmp {
		s.sub.Close()
		s.cancel()
	}
	r.t.Fatalf("INCONCLUSIVE: %s", msg)
}

func (r *vC10Run) publishOne(key string) error {
	atomic.StoreInt64(&vC10TsNext, 10*(r.p.log.NewestOffset()+2))
	ctx, cancel := context.WithTimeout(context.Background(), vC10Deadline)
	defer cancel()
	_, err := r.srv.api.Publish(ctx, &client.PublishRequest{Stream: r.stream, Key: []byte(key),
		Value: []byte("v"), AckPolicy: client.AckPolicy_ALL})
	return err
}

func (r *vC10Run) step(step map[string]interface{}) vC10Event {
	a := vStr(step, "a")
	args := map[string]interface{}{"id": "", "req": map[string]interface{}{}, "n": vIntDef(step, "n", -1)}
	obs := vC10Obs{A: a, Got: []vC10Rec{}}
	func() {
		defer func() {
			if p := recover(); p != nil {
				obs.Err = fmt.Sprintf("panic:%v", p)
				obs.St = "panic"
			}
		}()
		switch a {
		case "Publish":
			args["n"] = len(step["keys"].([]interface{}))
			for _, k := range step["keys"].([]interface{}) {
				if err := r.publishOne(k.(string)); err != nil {
					obs.Err = status.Code(err).String()
					break
				}
			}
		case "Tail":
			args["n"] = len(step["keys"].([]interface{}))
			for _, k := range step["keys"].([]interface{}) {
				off := r.p.log.NewestOffset() + 1
				_, err := r.p.log.Append([]*commitlog.Message{{
					MagicByte: 1, Key: []byte(k.(string)), Value: []byte("v"), Timestamp: 10 * (off + 1),
					LeaderEpoch: r.p.log.LastLeaderEpoch(),
					Headers:     map[string][]byte{"subject": []byte(r.stream), "reply": []byte("")},
				}})
				if err != nil {
					obs.Err = err.Error()
					break
				}
			}
		case "Commit":
			r.p.log.SetHighWatermark(r.p.log.NewestOffset())
		case "Clean":
			if err := r.p.log.Clean(); err != nil {
				obs.Err = err.Error()
			}
		case "Roll":
			rolled, err := commitlog.VerifC10Roll(r.p.log)
			if err != nil {
				obs.Err = err.Error()
			}
			if rolled {
				obs.St = "rolled"
			} else {
				obs.St = "kept"
			}
		case "Restart":
			for id, s := range r.subs {
				s.sub.Close()
				s.cancel()
				delete(r.subs, id)
			}
			if err := r.srv.Stop(); err != nil {
				obs.Err = err.Error()
			}
			r.srv = vOneNodeServer(r.t, r.cfg)
			r.p = vC10WaitLeader(r.t, r.srv, r.stream)
		case "Readonly":
			b := vBool(step, "b")
			args["b"] = b
			ctx, cancel := context.WithTimeout(context.Background(), vC10Deadline)
			_, err := r.srv.api.SetStreamReadonly(ctx, &client.SetStreamReadonlyRequest{Name: r.stream, Readonly: b})
			cancel()
			if err != nil {
				obs.Err = status.Code(err).String()
			}
			dl := time.Now().Add(vC10Deadline)
			for r.p.log.IsReadonly() != b {
				if time.Now().After(dl) {
					r.fail("readonly flag not applied")
				}
				time.Sleep(time.Millisecond)
			}
		case "Sub":
			id := vStr(step, "id")
			rq := step["req"].(map[string]interface{})
			args["id"], args["req"] = id, rq
			if old, ok := r.subs[id]; ok {
				old.sub.Close()
				old.cancel()
				delete(r.subs, id)
			}
			req := vC10Req(rq)
			req.Stream = r.stream
			ctx, cancel := context.WithCancel(context.Background())
			vC10FlushGate()
			sub, err := r.srv.api.SubscribeInternal(ctx, req)
			if err != nil {
				cancel()
				obs.Err = status.Code(err).String()
				obs.St = obs.Err
				return
			}
			s := &vC10Sub{sub: sub, cancel: cancel}
			r.tmp = []*vC10Sub{s}
			if req.Reverse {
				args["n"] = int64(-1)
			}
			r.drain(s, &obs, false, int64(args["n"].(int64)))
			r.tmp = nil
			if obs.St == "wait" || obs.St == "more" {
				r.subs[id] = s
			} else {
				sub.Close()
				cancel()
			}
		case "Drain":
			id := vStr(step, "id")
			args["id"] = id
			s, ok := r.subs[id]
			if !ok {
				obs.A, a = "Skip", "Skip"
				return
			}
			r.drain(s, &obs, true, vIntDef(step, "n", -1))
			if obs.St != "wait" && obs.St != "more" {
				s.sub.Close()
				s.cancel()
				delete(r.subs, id)
			}
		case "Cancel":
			id := vStr(step, "id")
			args["id"] = id
			if s, ok := r.subs[id]; ok {
				s.sub.Close()
				s.cancel()
				delete(r.subs, id)
			}
		default:
			r.t.Fatalf("unknown action %q", a)
		}
	}()
	return vC10Event{T: r.id, A: a, Args: args, St: r.state(), Obs: obs}
}

func vC10WaitLeader(t *testing.T, srv *Server, stream string) *partition {
	deadline := time.Now().Add(vC10Deadline)
	for {
		p := srv.metadata.GetPartition(stream, 0)
		if p != nil {
			if l, _ := p.GetLeader(); l == "a" && p.IsLeader() {
				return p
			}
		}
		if time.Now().After(deadline) {
			t.Fatalf("INCONCLUSIVE: partition of %s did not start", stream)
		}
		time.Sleep(time.Millisecond)
	}
}

func TestVerifSubscribe(t *testing.T) {
	sf := vLoadStimuli(t)
	tw := vOpenTrace(t)
	defer tw.Close()

	grace := 15 * time.Millisecond
	if g := os.Getenv("VERIF_GRACE_MS"); g != "" {
		if n, err := strconv.Atoi(g); err == nil {
			grace = time.Duration(n) * time.Millisecond
		}
	}

	// message timestamps: set by the harness before every publish
	oldTs := timestamp
	timestamp = func() int64 { return atomic.LoadInt64(&vC10TsNext) }
	defer func() { timestamp = oldTs }()
	commitlog.VerifGateHook = func(name string) {
		if name == "reader.before_wait_hw" {
			select {
			case vC10Gate <- struct{}{}:
			default:
			}
		}
	}
	defer func() { commitlog.VerifGateHook = nil }()

	defer os.RemoveAll(storagePath)
	cfg := vOneNodeConfig(t, "a")
	cfg.Streams.CleanerInterval = 24 * time.Hour
	srv := vOneNodeServer(t, cfg)
	defer func() { srv.Stop() }()

	// size of one stored message (all messages of all behaviours have the same
	// size: fixed-width stream names, one-byte keys and values)
	probe := fmt.Sprintf("c10-%07d", 0)
	if _, err := srv.api.CreateStream(context.Background(),
		&client.CreateStreamRequest{Name: probe, Subject: probe, SegmentMaxAge: &client.NullableInt64{Value: 0},
			RetentionMaxAge: &client.NullableInt64{Value: 0}}); err != nil {
		t.Fatalf("INCONCLUSIVE: create probe stream: %v", err)
	}
	pr := &vC10Run{t: t, srv: srv, stream: probe, p: vC10WaitLeader(t, srv, probe)}
	if err := pr.publishOne("a"); err != nil {
		t.Fatalf("INCONCLUSIVE: probe publish: %v", err)
	}
	fi, err := os.Stat(filepath.Join(pr.dir(), fmt.Sprintf("%020d.log", 0)))
	if err != nil || fi.Size() == 0 {
		t.Fatalf("INCONCLUSIVE: probe segment: %v", err)
	}
	msgSize := fi.Size()

	for _, b := range sf.Behaviours {
		stream := fmt.Sprintf("c10-%07d", b.ID)
		req := &client.CreateStreamRequest{Name: stream, Subject: stream,
			CompactEnabled: &client.NullableBool{Value: vBool(b.Cfg, "compact")},
			// segment and retention age are measured against message timestamps,
			// which are mocked here: switch both off
			SegmentMaxAge:   &client.NullableInt64{Value: 0},
			RetentionMaxAge: &client.NullableInt64{Value: 0}}
		if k := vIntDef(b.Cfg, "seg", 0); k > 0 {
			req.SegmentMaxBytes = &client.NullableInt64{Value: k * msgSize}
		}
		if m := vIntDef(b.Cfg, "retain", 0); m > 0 {
			req.RetentionMaxMessages = &client.NullableInt64{Value: m}
		}
		if _, err := srv.api.CreateStream(context.Background(), req); err != nil {
			t.Fatalf("INCONCLUSIVE: create stream: %v", err)
		}
		run := &vC10Run{t: t, srv: srv, cfg: cfg, stream: stream, id: b.ID, subs: map[string]*vC10Sub{}, grace: grace,
			p: vC10WaitLeader(t, srv, stream)}
		tw.Emit(vC10Event{T: b.ID, A: "Open", Args: map[string]interface{}{"id": "", "req": map[string]interface{}{}, "n": -1},
			St: run.state(), Obs: vC10Obs{A: "Open", Got: []vC10Rec{}}})
		for _, step := range b.Steps {
			tw.Emit(run.step(step))
			srv = run.srv // (a Restart step replaces the server)
		}
		for _, s := range run.subs {
			s.sub.Close()
			s.cancel()
		}
		ctx, cancel := context.WithTimeout(context.Background(), vC10Deadline)
		_, err := srv.api.DeleteStream(ctx, &client.DeleteStreamRequest{Name: stream})
		cancel()
		if err != nil {
			t.Fatalf("INCONCLUSIVE: delete stream: %v", err)
		}
	}
}
