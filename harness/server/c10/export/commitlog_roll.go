//go:build verif

package commitlog

// Harness-only export for the C10 driver (package server), mapped into this package
// by the check's overlay: the first half of a tick of the log's cleaner loop - the
// split check of the active segment (checkAndPerformSplit) - executed now instead of
// at a timer.  The segment age limit is 1 ns for the call, so that the real age test
// (time since the first write of the segment) rolls any active segment that was
// written to; a full segment is rolled either way and an empty one never.  The result
// is a log whose active segment is empty until the next publish.

import "time"

func VerifC10Roll(l CommitLog) (bool, error) {
	cl := l.(*commitLog)
	age := cl.MaxSegmentAge
	cl.MaxSegmentAge = time.Nanosecond
	defer func() { cl.MaxSegmentAge = age }()
	return cl.checkAndPerformSplit()
}
