//go:build verif

package server

// Shared by the C06 and C12 harnesses (metadata FSM and consumer groups):
// projection of a consumerGroup into the abstract group value of
// spec/GroupOps.tla, and small JSON helpers.  Add-only.

import (
	"encoding/json"
	"os"
	"sort"
)

// vFSelectIO lets several harness tests run in one `go test` process: a test
// named X reads VERIF_STIMULI_X / VERIF_TRACE_OUT_X when they are set.
func vFSelectIO(suffix string) {
	if p := os.Getenv("VERIF_STIMULI_" + suffix); p != "" {
		os.Setenv("VERIF_STIMULI", p)
		os.Setenv("VERIF_TRACE_OUT", os.Getenv("VERIF_TRACE_OUT_"+suffix))
	}
}

func vFJSON(v interface{}) ([]byte, error) { return json.Marshal(v) }

// vFStrs reads a JSON list of strings (never nil)
func vFStrs(m map[string]interface{}, k string) []string {
	out := []string{}
	v, ok := m[k]
	if !ok || v == nil {
		return out
	}
	for _, x := range v.([]interface{}) {
		out = append(out, x.(string))
	}
	return out
}

type v12Group struct {
	Exists bool                          `json:"exists"`
	Subs   map[string][]string           `json:"subs,omitempty"`
	Heap   map[string][]string           `json:"heap,omitempty"`
	Asg    map[string]map[string][]int32 `json:"asg,omitempty"`
	Cnt    map[string]int                `json:"cnt,omitempty"`
	Epoch  uint64                        `json:"epoch"`
	Coord  string                        `json:"coord"`
}

// MarshalJSON: a missing group is exactly {"exists":false} (= NoGroup)
func (g v12Group) MarshalJSON() ([]byte, error) {
	if !g.Exists {
		return []byte(`{"exists":false}`), nil
	}
	type plain struct {
		Exists bool                          `json:"exists"`
		Subs   map[string][]string           `json:"subs"`
		Heap   map[string][]string           `json:"heap"`
		Asg    map[string]map[string][]int32 `json:"asg"`
		Cnt    map[string]int                `json:"cnt"`
		Epoch  uint64                        `json:"epoch"`
		Coord  string                        `json:"coord"`
	}
	return vFJSON(plain{true, g.Subs, g.Heap, g.Asg, g.Cnt, g.Epoch, g.Coord})
}

// v12Project reads the group's internals into the abstract group value.
func v12Project(g *consumerGroup) v12Group {
	if g == nil {
		return v12Group{}
	}
	g.mu.RLock()
	defer g.mu.RUnlock()
	out := v12Group{Exists: true, Subs: map[string][]string{}, Heap: map[string][]string{},
		Asg: map[string]map[string][]int32{}, Cnt: map[string]int{}, Epoch: g.epoch, Coord: g.coordinator}
	for id, m := range g.members {
		ss := make([]string, 0, len(m.streams))
		for s := range m.streams {
			ss = append(ss, s)
		}
		sort.Strings(ss)
		out.Subs[id] = ss
		as := map[string][]int32{}
		for s, ps := range m.assignments {
			as[s] = append([]int32{}, ps...)
		}
		out.Asg[id] = as
		out.Cnt[id] = m.assignedCount
	}
	for s, h := range g.subscribers {
		ids := make([]string, 0, len(*h))
		for _, c := range *h {
			if c != nil {
				ids = append(ids, c.id)
			}
		}
		sort.Strings(ids)
		out.Heap[s] = ids
	}
	return out
}

func v12ErrClass(err error) string {
	switch err {
	case nil:
		return ""
	case ErrBrokerNotCoordinator:
		return "not_coordinator"
	case ErrGroupEpoch:
		return "epoch"
	case ErrConsumerNotMember:
		return "not_member"
	case ErrConsumerGroupNotFound:
		return "no_group"
	}
	return "other:" + err.Error()
}

type v12State struct {
	Gs    map[string]v12Group `json:"gs"`
	Parts map[string]int32    `json:"parts"`
	// paused partitions of every stream of the behaviour (always a list, never null)
	Paused map[string][]int32 `json:"paused"`
	Idx    uint64             `json:"idx"`
}

// v12Names is the stream-name alphabet of a behaviour: the specification speaks of
// sa < sb < sc (GroupOps.tla StreamOrder = the order of sort.Strings); the real
// names the code is given are cfg["names"][model name] - names that keep this
// byte order but order differently (or not at all) under other collations
// (case pairs, prefix pairs, different lengths, digits).  Requests carry the
// real names, the recorded state is renamed back.  Without cfg["names"] the
// model names are the real ones.
type v12Names struct{ real, model map[string]string }

func v12NamesOf(cfg map[string]interface{}) v12Names {
	n := v12Names{real: map[string]string{}, model: map[string]string{}}
	if m, ok := cfg["names"].(map[string]interface{}); ok {
		for k, v := range m {
			n.real[k] = v.(string)
			n.model[v.(string)] = k
		}
	}
	return n
}

func (n v12Names) r(model string) string {
	if x, ok := n.real[model]; ok {
		return x
	}
	return model
}

func (n v12Names) m(real string) string {
	if x, ok := n.model[real]; ok {
		return x
	}
	return real
}

func (n v12Names) rs(models []string) []string {
	out := make([]string, len(models))
	for i, s := range models {
		out[i] = n.r(s)
	}
	return out
}

func (n v12Names) ret(asg map[string][]int32) map[string][]int32 {
	out := map[string][]int32{}
	for s, ps := range asg {
		out[n.m(s)] = append([]int32{}, ps...)
	}
	return out
}

// group renames the streams of a projected group back to the model names
func (n v12Names) group(g v12Group) v12Group {
	if !g.Exists || len(n.model) == 0 {
		return g
	}
	out := v12Group{Exists: true, Subs: map[string][]string{}, Heap: map[string][]string{},
		Asg: map[string]map[string][]int32{}, Cnt: g.Cnt, Epoch: g.Epoch, Coord: g.Coord}
	for c, ss := range g.Subs {
		ms := make([]string, len(ss))
		for i, s := range ss {
			ms[i] = n.m(s)
		}
		sort.Strings(ms)
		out.Subs[c] = ms
	}
	for s, ids := range g.Heap {
		out.Heap[n.m(s)] = ids
	}
	for c, as := range g.Asg {
		out.Asg[c] = n.ret(as)
	}
	return out
}

// v12MetaStream reads the partitions of a stream from the metadata store itself
// (not through countStreamPartitions, which is code under test): how many
// partitions the stream has (0 = no such stream) and which of them are paused.
func v12MetaStream(m *metadataAPI, name string) (int32, []int32) {
	paused := []int32{}
	st := m.GetStream(name)
	if st == nil {
		return 0, paused
	}
	ps := st.GetPartitions()
	for id, p := range ps {
		if p != nil && p.IsPaused() {
			paused = append(paused, id)
		}
	}
	sort.Slice(paused, func(i, j int) bool { return paused[i] < paused[j] })
	return int32(len(ps)), paused
}

type v12Obs struct {
	A   string      `json:"a"`
	Srv string      `json:"srv"`
	Err string      `json:"err"`
	Ret interface{} `json:"ret"`
}

type v12Event struct {
	T    int                    `json:"t"`
	A    string                 `json:"a"`
	Args map[string]interface{} `json:"args"`
	St   v12State               `json:"st"`
	Obs  v12Obs                 `json:"obs"`
}
