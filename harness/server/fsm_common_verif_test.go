//go:build verif

package server

// Shared by the C06 and C12 harnesses (metadata FSM and consumer groups):
// projection of a consumerGroup into the abstract group value of
// spec/GroupOps.tla, and small JSON helpers.  Add-only.

import (
	"encoding/json"
	"os"
	"sort"
)

// vFSelectIO lets several harness tests run in one `go test` process: a test
// named X reads VERIF_STIMULI_X / VERIF_TRACE_OUT_X when they are set.
func vFSelectIO(suffix string) {
	if p := os.Getenv("VERIF_STIMULI_" + suffix); p != "" {
		os.Setenv("VERIF_STIMULI", p)
		os.Setenv("VERIF_TRACE_OUT", os.Getenv("VERIF_TRACE_OUT_"+suffix))
	}
}

func vFJSON(v interface{}) ([]byte, error) { return json.Marshal(v) }

// vFStrs reads a JSON list of strings (never nil)
func vFStrs(m map[string]interface{}, k string) []string {
	out := []string{}
	v, ok := m[k]
	if !ok || v == nil {
		return out
	}
	for _, x := range v.([]interface{}) {
		out = append(out, x.(string))
	}
	return out
}

type v12Group struct {
	Exists bool                          `json:"exists"`
	Subs   map[string][]string           `json:"subs,omitempty"`
	Heap   map[string][]string           `json:"heap,omitempty"`
	Asg    map[string]map[string][]int32 `json:"asg,omitempty"`
	Cnt    map[string]int                `json:"cnt,omitempty"`
	Epoch  uint64                        `json:"epoch"`
	Coord  string                        `json:"coord"`
}

// MarshalJSON: a missing group is exactly {"exists":false} (= NoGroup)
func (g v12Group) MarshalJSON() ([]byte, error) {
	if !g.Exists {
		return []byte(`{"exists":false}`), nil
	}
	type plain struct {
		Exists bool                          `json:"exists"`
		Subs   map[string][]string           `json:"subs"`
		Heap   map[string][]string           `json:"heap"`
		Asg    map[string]map[string][]int32 `json:"asg"`
		Cnt    map[string]int                `json:"cnt"`
		Epoch  uint64                        `json:"epoch"`
		Coord  string                        `json:"coord"`
	}
	return vFJSON(plain{true, g.Subs, g.Heap, g.Asg, g.Cnt, g.Epoch, g.Coord})
}

// v12Project reads the group's internals into the abstract group value.
func v12Project(g *consumerGroup) v12Group {
	if g == nil {
		return v12Group{}
	}
	g.mu.RLock()
	defer g.mu.RUnlock()
	out := v12Group{Exists: true, Subs: map[string][]string{}, Heap: map[string][]string{},
		Asg: map[string]map[string][]int32{}, Cnt: map[string]int{}, Epoch: g.epoch, Coord: g.coordinator}
	for id, m := range g.members {
		ss := make([]string, 0, len(m.streams))
		for s := range m.streams {
			ss = append(ss, s)
		}
		sort.Strings(ss)
		out.Subs[id] = ss
		as := map[string][]int32{}
		for s, ps := range m.assignments {
			as[s] = append([]int32{}, ps...)
		}
		out.Asg[id] = as
		out.Cnt[id] = m.assignedCount
	}
	for s, h := range g.subscribers {
		ids := make([]string, 0, len(*h))
		for _, c := range *h {
			if c != nil {
				ids = append(ids, c.id)
			}
		}
		sort.Strings(ids)
		out.Heap[s] = ids
	}
	return out
}

func v12ErrClass(err error) string {
	switch err {
	case nil:
		return ""
	case ErrBrokerNotCoordinator:
		return "not_coordinator"
	case ErrGroupEpoch:
		return "epoch"
	case ErrConsumerNotMember:
		return "not_member"
	case ErrConsumerGroupNotFound:
		return "no_group"
	}
	return "other:" + err.Error()
}

type v12State struct {
	Gs    map[string]v12Group `json:"gs"`
	Parts map[string]int32    `json:"parts"`
	Idx   uint64              `json:"idx"`
}

type v12Obs struct {
	A   string      `json:"a"`
	Srv string      `json:"srv"`
	Err string      `json:"err"`
	Ret interface{} `json:"ret"`
}

type v12Event struct {
	T    int                    `json:"t"`
	A    string                 `json:"a"`
	Args map[string]interface{} `json:"args"`
	St   v12State               `json:"st"`
	Obs  v12Obs                 `json:"obs"`
}
