//go:build verif

package server

// C06 (and the Server.apply binding of C12): behaviours of spec/MetadataFSM.tla
// executed on real, never-started Server values (New(config); their id is not a
// replica of any partition, so neither NATS nor Raft is needed).
//
//   server A  applies every committed operation, takes snapshots
//             (Server.Snapshot, fsmSnapshot.Persist into a buffer - possibly
//             after further applies), and restarts: a new Server over the same
//             data directory, Server.Restore, replay of the suffix with
//             recovered=true, finishedRecovery (finishRestore when nothing is
//             replayed, as Server.Start does)
//   server B  applies the same operations and never restarts (determinism)
//
// Every step is an intent; one ndjson line per real call with the projected
// state of A (metadata, groups, data directory, pending/persisted snapshot)
// and B.  TLC (Trace_MetadataFSM.tla) takes the verdict.

import (
	"bytes"
	"encoding/binary"
	"fmt"
	"io"
	"os"
	"path/filepath"
	"reflect"
	"sort"
	"strconv"
	"strings"
	"testing"
	"time"

	proto "github.com/liftbridge-io/liftbridge/server/protocol"
)

// ---- abstract state ---------------------------------------------------------

type v06Part struct {
	Replicas []string `json:"replicas"`
	Isr      []string `json:"isr"`
	Leader   string   `json:"leader"`
	Lepoch   uint64   `json:"lepoch"`
	Epoch    uint64   `json:"epoch"`
	Paused   bool     `json:"paused"`
	Ppaused  bool     `json:"ppaused"`
	Ro       bool     `json:"ro"`
	Roeff    bool     `json:"roeff"`
	Rec      bool     `json:"rec"`
	MinISR   int      `json:"minisr"`
}

type v06Proto struct {
	Replicas []string `json:"replicas"`
	Isr      []string `json:"isr"`
	Leader   string   `json:"leader"`
	Lepoch   uint64   `json:"lepoch"`
	Epoch    uint64   `json:"epoch"`
	Ppaused  bool     `json:"ppaused"`
	Ro       bool     `json:"ro"`
}

type v06Stream struct {
	Tomb  bool      `json:"tomb"`
	Subj  string    `json:"subj"`
	Cfg   string    `json:"cfg"`
	Ts    int64     `json:"ts"`
	Parts []v06Part `json:"parts"`
}

// v06Head = the stream-level fields a snapshot carries by value
type v06Head struct {
	Subj string `json:"subj"`
	Cfg  string `json:"cfg"`
	Ts   int64  `json:"ts"`
}

// stream-level configurations used by the behaviours, by id.  "k1" sets EVERY field of
// proto.StreamConfig to a non-default value (the fields are enumerated by reflection, so a
// field added later is included automatically): a snapshot / replay path that drops any
// field changes the marshalled bytes and therefore the id the driver projects.
func v06Config(id string) *proto.StreamConfig {
	if id != "k1" {
		return nil
	}
	c := &proto.StreamConfig{}
	v := reflect.ValueOf(c).Elem()
	for i := 0; i < v.NumField(); i++ {
		f, name := v.Field(i), v.Type().Field(i).Name
		if strings.HasPrefix(name, "XXX_") {
			continue
		}
		switch f.Interface().(type) {
		case *proto.NullableInt64:
			// sizes / counts: large; durations (nanoseconds): about an hour - nothing fires, nothing rolls
			val := int64(1<<26) + int64(i)
			if !strings.Contains(name, "Bytes") && !strings.Contains(name, "Messages") {
				val = int64(time.Hour) + int64(i)
			}
			f.Set(reflect.ValueOf(&proto.NullableInt64{Value: val}))
		case *proto.NullableInt32:
			f.Set(reflect.ValueOf(&proto.NullableInt32{Value: 2})) // MinIsr 2 = MinIsrOf("k1") of the model
		case *proto.NullableBool:
			f.Set(reflect.ValueOf(&proto.NullableBool{Value: true}))
		default:
			panic("v06Config: proto.StreamConfig." + name + " has a type this harness does not know - extend v06Config")
		}
	}
	return c
}

// encrypted streams (k1 switches Encryption on) need the master key
func init() { os.Setenv("LIFTBRIDGE_ENCRYPTION_KEY", "0123456789abcdef0123456789abcdef") }

// v06ConfigID names the configuration a stream really carries
func v06ConfigID(c *proto.StreamConfig) string {
	if c == nil {
		return "none"
	}
	b, err := c.Marshal()
	if err != nil {
		return "other:" + err.Error()
	}
	if len(b) == 0 {
		return "none"
	}
	k1, _ := v06Config("k1").Marshal()
	if bytes.Equal(b, k1) {
		return "k1"
	}
	return fmt.Sprintf("other:%x", b)
}

type v06Member struct {
	C string   `json:"c"`
	S []string `json:"S"`
}

type v06SnapGroup struct {
	Members []v06Member `json:"members"`
	Epoch   uint64      `json:"epoch"`
	Coord   string      `json:"coord"`
}

type v06Ref struct {
	Has     bool                    `json:"has"`
	Idx     uint64                  `json:"idx"`
	Live    []string                `json:"live"`
	Frozen  map[string][]v06Proto   `json:"frozen"`
	Heads   map[string]v06Head      `json:"heads"`
	Groups  map[string]v06SnapGroup `json:"groups"`
	LastPub uint64                  `json:"lastPub"` // activity index captured by Snapshot()
}

type v06Snap struct {
	Has     bool                    `json:"has"`
	Idx     uint64                  `json:"idx"`
	Streams map[string][]v06Proto   `json:"streams"`
	Heads   map[string]v06Head      `json:"heads"`
	Groups  map[string]v06SnapGroup `json:"groups"`
	LastPub uint64                  `json:"lastPub"`
}

type v06State struct {
	Streams map[string]v06Stream `json:"streams"`
	Groups  map[string]v12Group  `json:"groups"`
	Grec    map[string]bool      `json:"grec"` // consumerGroup.recovered (false for a missing group)
	LastPub uint64               `json:"lastPub"`
	Disk    map[string][]int64   `json:"disk"`
	Applied uint64               `json:"applied"`
	Mode    string               `json:"mode"`
	Nrep    int                  `json:"nrep"`
	Sref    v06Ref               `json:"sref"`
	Snap    *v06Snap             `json:"snap,omitempty"` // only on the lines where it changes
}

type v06Other struct {
	Streams map[string]v06Stream `json:"streams"`
	Groups  map[string]v12Group  `json:"groups"`
	LastPub uint64               `json:"lastPub"`
}

type v06Obs struct {
	A   string `json:"a"`
	Err string `json:"err"`
}

type v06Event struct {
	T     int                    `json:"t"`
	A     string                 `json:"a"`
	Args  map[string]interface{} `json:"args"`
	St    v06State               `json:"st"`
	Other v06Other               `json:"other"`
	Obs   v06Obs                 `json:"obs"`
}

// ---- server kit -------------------------------------------------------------

func v06Sorted(in []string) []string {
	out := append([]string{}, in...)
	sort.Strings(out)
	return out
}

func v06NewServer(id, dir string) *Server {
	cfg := NewDefaultConfig()
	cfg.DataDir = dir
	cfg.Clustering.ServerID = id
	cfg.LogSilent = true
	cfg.LogRecovery = true // otherwise finishedRecovery switches the log output back on
	cfg.Telemetry.Enabled = false
	cfg.Groups.ConsumerTimeout = time.Hour
	cfg.Groups.CoordinatorTimeout = time.Hour
	return New(cfg)
}

// v06Running marks a never-started server as serving (what startAPIServer does
// in Server.Start): Restore on a running server ends the recovery itself.
func v06Running(s *Server) {
	s.mu.Lock()
	s.running = true
	s.mu.Unlock()
}

// v06Close releases what a never-started server holds: commit logs, timers.
func v06Close(s *Server) {
	s.goroutineWait.Wait()
	s.metadata.Reset()
}

func v06ApplyErr(s *Server, op *proto.RaftLog, idx uint64, recovered bool) (res string) {
	defer func() {
		if p := recover(); p != nil {
			res = fmt.Sprintf("panic:%v", p)
		}
	}()
	if _, err := s.apply(op, idx, recovered); err != nil {
		return v06ErrClass(err)
	}
	return ""
}

func v06ErrClass(err error) string {
	msg := err.Error()
	switch {
	case strings.Contains(msg, ErrStreamExists.Error()):
		return "stream_exists"
	case strings.Contains(msg, ErrStreamNotFound.Error()):
		return "stream_not_found"
	case strings.Contains(msg, ErrPartitionNotFound.Error()):
		return "partition_not_found"
	case strings.Contains(msg, "No such partition"):
		return "no_partition"
	case strings.Contains(msg, "not a replica"):
		return "not_replica"
	case strings.Contains(msg, "proposed leader epoch"):
		return "leader_epoch"
	case strings.Contains(msg, ErrConsumerGroupExists.Error()):
		return "group_exists"
	case strings.Contains(msg, ErrConsumerGroupNotFound.Error()):
		return "group_not_found"
	case strings.Contains(msg, "proposed group epoch"):
		return "group_epoch"
	case strings.Contains(msg, ErrConsumerNotMember.Error()):
		return "not_member"
	}
	return "other:" + msg
}

func v06Ints(m map[string]interface{}, k string) []int32 {
	out := []int32{}
	if v, ok := m[k]; ok && v != nil {
		for _, x := range v.([]interface{}) {
			out = append(out, int32(x.(float64)))
		}
	}
	return out
}

// v06BuildOp turns an abstract operation into a fresh proto.RaftLog (apply keeps
// and mutates the protos, so every server and every replay gets its own).
func v06BuildOp(o map[string]interface{}) *proto.RaftLog {
	switch vStr(o, "op") {
	case "CreateStream":
		s, n := vStr(o, "s"), int(vInt(o, "n"))
		subj := vStrDef(o, "subj", s)
		st := &proto.Stream{Name: s, Subject: subj, CreationTimestamp: vIntDef(o, "ts", 7),
			Config: v06Config(vStrDef(o, "cfg", "none"))}
		for i := 0; i < n; i++ {
			r := vFStrs(o, "R")
			st.Partitions = append(st.Partitions, &proto.Partition{Subject: subj, Stream: s, Id: int32(i),
				ReplicationFactor: int32(len(r)), Replicas: r, Isr: append([]string{}, r...), Leader: vStr(o, "ldr")})
		}
		return &proto.RaftLog{Op: proto.Op_CREATE_STREAM, CreateStreamOp: &proto.CreateStreamOp{Stream: st}}
	case "DeleteStream":
		return &proto.RaftLog{Op: proto.Op_DELETE_STREAM, DeleteStreamOp: &proto.DeleteStreamOp{Stream: vStr(o, "s")}}
	case "Pause":
		return &proto.RaftLog{Op: proto.Op_PAUSE_STREAM, PauseStreamOp: &proto.PauseStreamOp{Stream: vStr(o, "s"),
			Partitions: v06Ints(o, "pids"), ResumeAll: vBool(o, "resumeAll")}}
	case "Resume":
		return &proto.RaftLog{Op: proto.Op_RESUME_STREAM, ResumeStreamOp: &proto.ResumeStreamOp{Stream: vStr(o, "s"),
			Partitions: v06Ints(o, "pids")}}
	case "SetReadonly":
		return &proto.RaftLog{Op: proto.Op_SET_STREAM_READONLY, SetStreamReadonlyOp: &proto.SetStreamReadonlyOp{
			Stream: vStr(o, "s"), Partitions: v06Ints(o, "pids"), Readonly: vBool(o, "b")}}
	case "ShrinkISR":
		return &proto.RaftLog{Op: proto.Op_SHRINK_ISR, ShrinkISROp: &proto.ShrinkISROp{Stream: vStr(o, "s"),
			Partition: int32(vInt(o, "p")), ReplicaToRemove: vStr(o, "r")}}
	case "ExpandISR":
		return &proto.RaftLog{Op: proto.Op_EXPAND_ISR, ExpandISROp: &proto.ExpandISROp{Stream: vStr(o, "s"),
			Partition: int32(vInt(o, "p")), ReplicaToAdd: vStr(o, "r")}}
	case "ChangeLeader":
		return &proto.RaftLog{Op: proto.Op_CHANGE_LEADER, ChangeLeaderOp: &proto.ChangeLeaderOp{Stream: vStr(o, "s"),
			Partition: int32(vInt(o, "p")), Leader: vStr(o, "ldr")}}
	case "CreateGroup":
		return &proto.RaftLog{Op: proto.Op_CREATE_CONSUMER_GROUP, CreateConsumerGroupOp: &proto.CreateConsumerGroupOp{
			ConsumerGroup: &proto.ConsumerGroup{Id: vStr(o, "g"), Coordinator: vStr(o, "coord"),
				Members: []*proto.Consumer{{Id: vStr(o, "c"), Streams: vFStrs(o, "S")}}}}}
	case "JoinGroup":
		return &proto.RaftLog{Op: proto.Op_JOIN_CONSUMER_GROUP, JoinConsumerGroupOp: &proto.JoinConsumerGroupOp{
			GroupId: vStr(o, "g"), ConsumerId: vStr(o, "c"), Streams: vFStrs(o, "S")}}
	case "LeaveGroup":
		return &proto.RaftLog{Op: proto.Op_LEAVE_CONSUMER_GROUP, LeaveConsumerGroupOp: &proto.LeaveConsumerGroupOp{
			GroupId: vStr(o, "g"), ConsumerId: vStr(o, "c"), Expired: vBool(o, "expired")}}
	case "ChangeCoordinator":
		return &proto.RaftLog{Op: proto.Op_CHANGE_CONSUMER_GROUP_COORDINATOR,
			ChangeConsumerGroupCoordinatorOp: &proto.ChangeConsumerGroupCoordinatorOp{GroupId: vStr(o, "g"),
				Coordinator: vStr(o, "coord")}}
	case "PublishActivity":
		return &proto.RaftLog{Op: proto.Op_PUBLISH_ACTIVITY, PublishActivityOp: &proto.PublishActivityOp{
			RaftIndex: uint64(vInt(o, "i"))}}
	}
	panic("unknown op " + vStr(o, "op"))
}

func v06ProtoOf(p *proto.Partition) v06Proto {
	return v06Proto{Replicas: v06Sorted(p.Replicas), Isr: v06Sorted(p.Isr), Leader: p.Leader, Lepoch: p.LeaderEpoch,
		Epoch: p.Epoch, Ppaused: p.Paused, Ro: p.Readonly}
}

func v06Streams(s *Server) map[string]v06Stream {
	out := map[string]v06Stream{}
	for _, st := range s.metadata.GetStreams() {
		parts := st.GetPartitions()
		ps := make([]v06Part, len(parts))
		for i := range ps {
			p := parts[int32(i)]
			if p == nil {
				ps[i] = v06Part{Replicas: []string{}, Isr: []string{}, Leader: "missing"}
				continue
			}
			leader, lepoch := p.GetLeader()
			p.mu.RLock()
			rec, minISR := p.recovered, p.minISR
			p.mu.RUnlock()
			ps[i] = v06Part{Rec: rec, MinISR: minISR, Replicas: v06Sorted(p.GetReplicas()), Isr: v06Sorted(p.GetISR()), Leader: leader,
				Lepoch: lepoch, Epoch: p.GetEpoch(), Paused: p.IsPaused(), Ppaused: p.Partition.GetPaused(),
				Ro: p.Partition.GetReadonly(), Roeff: p.IsReadonly()}
		}
		out[st.GetName()] = v06Stream{Tomb: st.IsTombstoned(), Subj: st.GetSubject(), Cfg: v06ConfigID(st.GetConfig()),
			Ts: v06Ts(st.GetCreationTime()), Parts: ps}
	}
	return out
}

func v06Ts(tm time.Time) int64 {
	if tm.IsZero() {
		return 0
	}
	return tm.UnixNano()
}

func v06HeadOf(ps *proto.Stream) v06Head {
	return v06Head{Subj: ps.Subject, Cfg: v06ConfigID(ps.Config), Ts: ps.CreationTimestamp}
}

func v06Groups(s *Server, ids []string) map[string]v12Group {
	out := map[string]v12Group{}
	for _, id := range ids {
		out[id] = v12Project(s.metadata.GetConsumerGroup(id))
	}
	return out
}

// v06Grec: which groups are still in recovery mode (added by Restore / a replayed
// CREATE_CONSUMER_GROUP and not started yet: member timers not armed)
func v06Grec(s *Server, ids []string) map[string]bool {
	out := map[string]bool{}
	for _, id := range ids {
		out[id] = false
		if g := s.metadata.GetConsumerGroup(id); g != nil {
			g.mu.RLock()
			out[id] = g.recovered
			g.mu.RUnlock()
		}
	}
	return out
}

const v06Marker = "verif.marker"

func v06Disk(dir string) map[string][]int64 {
	out := map[string][]int64{}
	ents, err := os.ReadDir(filepath.Join(dir, "streams"))
	if err != nil {
		return out
	}
	for _, e := range ents {
		if !e.IsDir() {
			continue
		}
		ms := []int64{}
		for i := 0; ; i++ {
			pd := filepath.Join(dir, "streams", e.Name(), strconv.Itoa(i))
			if _, err := os.Stat(pd); err != nil {
				break
			}
			m := int64(0)
			if b, err := os.ReadFile(filepath.Join(pd, v06Marker)); err == nil {
				m, _ = strconv.ParseInt(strings.TrimSpace(string(b)), 10, 64)
			}
			ms = append(ms, m)
		}
		out[e.Name()] = ms
	}
	return out
}

func v06WriteMarkers(dir, stream string, n int, idx uint64) {
	for i := 0; i < n; i++ {
		pd := filepath.Join(dir, "streams", stream, strconv.Itoa(i))
		os.MkdirAll(pd, 0o755)
		os.WriteFile(filepath.Join(pd, v06Marker), []byte(strconv.FormatUint(idx, 10)), 0o644)
	}
}

type v06Sink struct {
	bytes.Buffer
	cancelled bool
	onWrite   func() // called once, inside the first Write (Persist is then in the middle of writing)
}

func (k *v06Sink) Write(p []byte) (int, error) {
	n, err := k.Buffer.Write(p)
	if f := k.onWrite; f != nil {
		k.onWrite = nil
		f()
	}
	return n, err
}

func (k *v06Sink) Close() error  { return nil }
func (k *v06Sink) ID() string    { return "verif" }
func (k *v06Sink) Cancel() error { k.cancelled = true; return nil }

func v06SnapGroups(gs []*proto.ConsumerGroup) map[string]v06SnapGroup {
	out := map[string]v06SnapGroup{}
	for _, g := range gs {
		sg := v06SnapGroup{Members: []v06Member{}, Epoch: g.Epoch, Coord: g.Coordinator}
		for _, m := range g.Members {
			sg.Members = append(sg.Members, v06Member{C: m.Id, S: v06Sorted(m.Streams)})
		}
		out[g.Id] = sg
	}
	return out
}

// ---- one behaviour ----------------------------------------------------------

type v06Run struct {
	dirA, dirB string
	a, b       *Server
	groupIDs   []string
	log        []map[string]interface{} // committed operations, index i+1
	applied    uint64
	mode       string
	nrep       int
	pending    *fsmSnapshot // Snapshot() result not yet persisted
	pendingIdx uint64
	snapBytes  []byte
	snapIdx    uint64
}

func (r *v06Run) sref() v06Ref {
	ref := v06Ref{Live: []string{}, Frozen: map[string][]v06Proto{}, Heads: map[string]v06Head{},
		Groups: map[string]v06SnapGroup{}}
	if r.pending == nil {
		return ref
	}
	ref.Has, ref.Idx = true, r.pendingIdx
	ref.LastPub = r.pending.GetLastPublishedRaftIndex()
	for _, ps := range r.pending.Streams {
		ref.Heads[ps.Name] = v06HeadOf(ps)
		live := false
		if st := r.a.metadata.GetStream(ps.Name); st != nil && len(ps.Partitions) > 0 {
			if p := st.GetPartition(ps.Partitions[0].Id); p != nil && p.Partition == ps.Partitions[0] {
				live = true
			}
		}
		if live {
			ref.Live = append(ref.Live, ps.Name)
			continue
		}
		fr := make([]v06Proto, len(ps.Partitions))
		for _, p := range ps.Partitions {
			fr[p.Id] = v06ProtoOf(p)
		}
		ref.Frozen[ps.Name] = fr
	}
	sort.Strings(ref.Live)
	ref.Groups = v06SnapGroups(r.pending.Groups)
	return ref
}

func (r *v06Run) snap() v06Snap {
	sn := v06Snap{Streams: map[string][]v06Proto{}, Heads: map[string]v06Head{}, Groups: map[string]v06SnapGroup{}}
	if r.snapBytes == nil {
		return sn
	}
	sn.Has, sn.Idx = true, r.snapIdx
	ms := &proto.MetadataSnapshot{}
	if err := ms.Unmarshal(r.snapBytes[4:]); err != nil {
		panic(err)
	}
	for _, ps := range ms.Streams {
		fr := make([]v06Proto, len(ps.Partitions))
		for _, p := range ps.Partitions {
			fr[p.Id] = v06ProtoOf(p)
		}
		sn.Streams[ps.Name] = fr
		sn.Heads[ps.Name] = v06HeadOf(ps)
	}
	sn.Groups = v06SnapGroups(ms.Groups)
	sn.LastPub = ms.GetLastPublishedRaftIndex()
	return sn
}

func (r *v06Run) state(withSnap bool) (v06State, v06Other) {
	st := v06State{Streams: v06Streams(r.a), Groups: v06Groups(r.a, r.groupIDs), Grec: v06Grec(r.a, r.groupIDs),
		LastPub: r.a.activity.LastPublishedRaftIndex(), Disk: v06Disk(r.dirA), Applied: r.applied, Mode: r.mode,
		Nrep: r.nrep, Sref: r.sref()}
	if withSnap {
		sn := r.snap()
		st.Snap = &sn
	}
	ot := v06Other{Streams: v06Streams(r.b), Groups: v06Groups(r.b, r.groupIDs),
		LastPub: r.b.activity.LastPublishedRaftIndex()}
	return st, ot
}

func (r *v06Run) step(id int, step map[string]interface{}) v06Event {
	a := vStr(step, "a")
	args := map[string]interface{}{}
	obs := v06Obs{A: a}
	withSnap := false
	skip := func() { obs.A, a = "Skip", "Skip" }
	switch a {
	case "Apply":
		if r.mode != "live" {
			skip()
			break
		}
		o := step["o"].(map[string]interface{})
		idx := r.applied + 1
		errA := v06ApplyErr(r.a, v06BuildOp(o), idx, false)
		r.a.goroutineWait.Wait()
		errB := v06ApplyErr(r.b, v06BuildOp(o), idx, false)
		r.b.goroutineWait.Wait()
		if errA == "" && vStr(o, "op") == "CreateStream" {
			// data written under this incarnation of the stream
			v06WriteMarkers(r.dirA, vStr(o, "s"), int(vInt(o, "n")), idx)
		}
		r.log = append(r.log, o)
		r.applied = idx
		a = vStr(o, "op")
		obs.A, obs.Err = a, errA
		args["o"], args["rec"], args["errB"] = o, false, errB
	case "Replay":
		if r.mode != "replay" || int(r.applied) >= len(r.log) {
			skip()
			break
		}
		o := r.log[r.applied]
		idx := r.applied + 1
		obs.Err = v06ApplyErr(r.a, v06BuildOp(o), idx, true)
		r.a.goroutineWait.Wait()
		r.applied = idx
		r.nrep++
		a = vStr(o, "op")
		obs.A = a
		args["o"], args["rec"] = o, true
	case "Snapshot":
		if r.mode != "live" {
			skip()
			break
		}
		fs, err := r.a.Snapshot()
		if err != nil {
			obs.Err = "other:" + err.Error()
			break
		}
		r.pending = fs.(*fsmSnapshot)
		r.pendingIdx = r.applied
	case "Persist":
		if r.pending == nil {
			skip()
			break
		}
		sink := &v06Sink{}
		if err := r.pending.Persist(sink); err != nil || sink.cancelled {
			obs.Err = fmt.Sprintf("other:%v", err)
			break
		}
		r.snapBytes = append([]byte{}, sink.Bytes()...)
		if int(binary.BigEndian.Uint32(r.snapBytes[:4])) != len(r.snapBytes)-4 {
			obs.Err = "other:size prefix"
		}
		r.snapIdx = r.pendingIdx
		r.pending = nil
	case "PersistWith":
		// fsmSnapshot.Persist concurrent with an apply: the operation is applied (on both
		// servers) while Persist is writing to the sink (inside its first Write)
		if r.pending == nil || r.mode != "live" {
			skip()
			break
		}
		o := step["o"].(map[string]interface{})
		idx := r.applied + 1
		errB := ""
		sink := &v06Sink{}
		sink.onWrite = func() {
			obs.Err = v06ApplyErr(r.a, v06BuildOp(o), idx, false)
			r.a.goroutineWait.Wait()
			errB = v06ApplyErr(r.b, v06BuildOp(o), idx, false)
			r.b.goroutineWait.Wait()
		}
		perr := r.pending.Persist(sink)
		if obs.Err == "" && vStr(o, "op") == "CreateStream" {
			v06WriteMarkers(r.dirA, vStr(o, "s"), int(vInt(o, "n")), idx)
		}
		r.log = append(r.log, o)
		r.applied = idx
		args["o"], args["rec"], args["errB"] = o, false, errB
		withSnap = true
		if perr != nil || sink.cancelled {
			obs.Err = fmt.Sprintf("other:persist %v", perr)
			break
		}
		r.snapBytes = append([]byte{}, sink.Bytes()...)
		r.snapIdx = r.pendingIdx
		r.pending = nil
		if len(r.snapBytes) < 4 || int(binary.BigEndian.Uint32(r.snapBytes[:4])) != len(r.snapBytes)-4 {
			obs.Err = "other:size prefix"
			// (kept as it is: a later Restore reads what was written)
		}
	case "Restart":
		if r.mode != "live" {
			skip()
			break
		}
		v06Close(r.a)
		r.a = v06NewServer("A", r.dirA)
		r.pending = nil
		r.applied, r.nrep = 0, 0
		if r.snapBytes != nil {
			r.mode = "boot"
		} else {
			// raft.NewRaft has nothing to restore; Server.Start goes on to startAPIServer
			v06Running(r.a)
			r.mode = "replay"
		}
	case "Restore":
		if r.mode != "boot" {
			skip()
			break
		}
		func() {
			defer func() {
				if p := recover(); p != nil {
					obs.Err = fmt.Sprintf("panic:%v", p)
				}
			}()
			if err := r.a.Restore(io.NopCloser(bytes.NewReader(r.snapBytes))); err != nil {
				obs.Err = "other:" + err.Error()
			}
		}()
		r.a.goroutineWait.Wait()
		// Restore at start-up runs inside raft.NewRaft, before startAPIServer
		v06Running(r.a)
		r.applied = r.snapIdx
		r.mode = "replay"
	case "Finish":
		if r.mode != "replay" || r.nrep == 0 {
			skip()
			break
		}
		func() {
			defer func() {
				if p := recover(); p != nil {
					obs.Err = fmt.Sprintf("panic:%v", p)
				}
			}()
			if _, _, err := r.a.finishedRecovery(r.applied); err != nil {
				obs.Err = "other:" + err.Error()
			}
		}()
		r.a.goroutineWait.Wait()
		r.mode = "live"
	case "GoLive":
		if r.mode != "replay" || r.nrep != 0 {
			skip()
			break
		}
		// the log store holds no command entry behind the snapshot (the driver knows:
		// nothing to replay): Server.Start calls finishRestore after startAPIServer
		func() {
			defer func() {
				if p := recover(); p != nil {
					obs.Err = fmt.Sprintf("panic:%v", p)
				}
			}()
			if err := r.a.finishRestore(); err != nil {
				obs.Err = "other:" + err.Error()
			}
		}()
		r.a.goroutineWait.Wait()
		r.mode = "live"
	case "Install":
		// a live server is handed a snapshot (Raft InstallSnapshot): Server.Restore on
		// the server that HAS state; the entries behind the snapshot follow as new ones
		if r.mode != "live" || r.snapBytes == nil || r.pending != nil {
			skip()
			break
		}
		func() {
			defer func() {
				if p := recover(); p != nil {
					obs.Err = fmt.Sprintf("panic:%v", p)
				}
			}()
			if err := r.a.Restore(io.NopCloser(bytes.NewReader(r.snapBytes))); err != nil {
				obs.Err = "other:" + err.Error()
			}
		}()
		r.a.goroutineWait.Wait()
		r.applied = r.snapIdx
		r.mode = "catchup"
	case "Catchup":
		if r.mode != "catchup" || int(r.applied) >= len(r.log) {
			skip()
			break
		}
		o := r.log[r.applied]
		idx := r.applied + 1
		obs.Err = v06ApplyErr(r.a, v06BuildOp(o), idx, false)
		r.a.goroutineWait.Wait()
		if obs.Err == "" && vStr(o, "op") == "CreateStream" {
			v06WriteMarkers(r.dirA, vStr(o, "s"), int(vInt(o, "n")), idx)
		}
		r.applied = idx
		a = vStr(o, "op")
		obs.A = a
		args["o"], args["rec"] = o, false
	case "CaughtUp":
		if r.mode != "catchup" || int(r.applied) < len(r.log) {
			skip()
			break
		}
		r.mode = "live"
	default:
		panic("unknown action " + a)
	}
	st, ot := r.state(a == "Persist" || withSnap)
	return v06Event{T: id, A: a, Args: args, St: st, Other: ot, Obs: obs}
}

func TestVerifMetadataFSM(t *testing.T) {
	vFSelectIO("FSM06")
	sf := vLoadStimuli(t)
	tw := vOpenTrace(t)
	defer tw.Close()
	base, err := os.MkdirTemp("", "v06")
	if err != nil {
		t.Fatal(err)
	}
	for _, b := range sf.Behaviours {
		run := &v06Run{dirA: filepath.Join(base, fmt.Sprintf("a%d", b.ID)), dirB: filepath.Join(base, fmt.Sprintf("b%d", b.ID)),
			groupIDs: vFStrs(b.Cfg, "groups"), mode: "live"}
		run.a = v06NewServer("A", run.dirA)
		run.b = v06NewServer("B", run.dirB)
		v06Running(run.a)
		v06Running(run.b)
		st, ot := run.state(true)
		tw.Emit(v06Event{T: b.ID, A: "Open", Args: map[string]interface{}{}, St: st, Other: ot, Obs: v06Obs{A: "Open"}})
		failed := false
		for _, step := range b.Steps {
			ev := run.step(b.ID, step)
			failed = failed || ev.Obs.Err != ""
			tw.Emit(ev)
		}
		v06Close(run.a)
		v06Close(run.b)
		// a failed Restore / Resume can leave an open commit log behind (never closed by
		// the code under test) whose checkpoint loop panics the process once its
		// directory is gone: such directories stay until the test process has exited
		// (they live under $TMPDIR, which the check removes)
		if !failed {
			os.RemoveAll(run.dirA)
			os.RemoveAll(run.dirB)
		}
	}
}
