//go:build verif

package server

// C12 on a real one-node server (embedded NATS on a private port, single-node
// Raft): group requests go through the metadata leader API, i.e. through
// raftNode.applyOperation (mutex, barrier, check*Preconditions, raft.Apply).
// A "Race" step fires two requests at the same time - a retried join, two
// clients with one consumer id, a join racing the deletion of its stream - so
// that the second one enters applyOperation while the first is proposed but not
// yet committed.  Which one wins is free; the recorded group state must be a
// valid assignment whatever the order (TLC: C12_* invariants of Groups.tla).

import (
	"context"
	"os"
	"sync"
	"testing"
	"time"

	proto "github.com/liftbridge-io/liftbridge/server/protocol"
)

type v12Real struct {
	t       *testing.T
	srv     *Server
	streams []string
	idx     uint64
}

func (r *v12Real) call(o map[string]interface{}) string {
	ctx, cancel := context.WithTimeout(context.Background(), 20*time.Second)
	defer cancel()
	m := r.srv.metadata
	switch vStr(o, "a") {
	case "CreateStream":
		s, n := vStr(o, "s"), int(vInt(o, "n"))
		ps := make([]*proto.Partition, n)
		for i := range ps {
			ps[i] = &proto.Partition{Subject: s, Stream: s, Id: int32(i), ReplicationFactor: 1}
		}
		if st := m.CreateStream(ctx, &proto.CreateStreamOp{Stream: &proto.Stream{Name: s, Subject: s, Partitions: ps}}); st != nil {
			return "refused:" + st.Message()
		}
	case "DeleteStream":
		if st := m.DeleteStream(ctx, &proto.DeleteStreamOp{Stream: vStr(o, "s")}); st != nil {
			return "refused:" + st.Message()
		}
	case "Join":
		if _, _, st := m.JoinConsumerGroup(ctx, &proto.JoinConsumerGroupOp{GroupId: v12GroupID,
			ConsumerId: vStr(o, "c"), Streams: vFStrs(o, "streams")}); st != nil {
			return "refused:" + st.Message()
		}
	case "Leave":
		if st := m.LeaveConsumerGroup(ctx, &proto.LeaveConsumerGroupOp{GroupId: v12GroupID,
			ConsumerId: vStr(o, "c")}); st != nil {
			return "refused:" + st.Message()
		}
	default:
		return "unsupported"
	}
	return ""
}

// settle waits until everything proposed has been applied (the announcement of
// a deleted stream to the groups is part of the apply of its DELETE_STREAM).
func (r *v12Real) settle() {
	if err := r.srv.getRaft().Barrier(20 * time.Second).Error(); err != nil {
		r.t.Fatalf("INCONCLUSIVE: raft barrier: %v", err)
	}
}

func (r *v12Real) state() v12State {
	g := v12Project(r.srv.metadata.GetConsumerGroup(v12GroupID))
	st := v12State{Gs: map[string]v12Group{"A": g, "B": g},
		Parts: map[string]int32{}, Paused: map[string][]int32{}, Idx: r.idx}
	for _, s := range r.streams {
		st.Parts[s], st.Paused[s] = v12MetaStream(r.srv.metadata, s)
	}
	return st
}

func TestVerifGroupsRealRace(t *testing.T) {
	vFSelectIO("RACE")
	sf := vLoadStimuli(t)
	tw := vOpenTrace(t)
	defer tw.Close()
	for _, b := range sf.Behaviours {
		os.RemoveAll(storagePath)
		cfg := vOneNodeConfig(t, "a")
		cfg.Groups.ConsumerTimeout = time.Hour
		cfg.Groups.CoordinatorTimeout = time.Hour
		r := &v12Real{t: t, streams: vFStrs(b.Cfg, "streams")}
		r.srv = vOneNodeServer(t, cfg)
		emit := func(a string, args map[string]interface{}, res []string) {
			r.idx++
			args["results"] = res
			tw.Emit(v12Event{T: b.ID, A: a, Args: args, St: r.state(),
				Obs: v12Obs{A: a, Ret: map[string][]int32{}}})
			// a request that the FSM cannot apply makes Server.Apply panic in a Raft
			// goroutine: everything recorded so far must be on disk for the check
			tw.w.Flush()
		}
		tw.Emit(v12Event{T: b.ID, A: "Open", Args: map[string]interface{}{}, St: r.state(),
			Obs: v12Obs{A: "Open", Ret: map[string][]int32{}}})
		for _, step := range b.Steps {
			if vStr(step, "a") != "Race" {
				res := r.call(step)
				r.settle()
				emit("Sync", map[string]interface{}{"op": step}, []string{res})
				continue
			}
			ops := vList(step, "ops")
			res := make([]string, len(ops))
			var start, done sync.WaitGroup
			start.Add(1)
			for i := range ops {
				done.Add(1)
				go func(i int) {
					defer done.Done()
					start.Wait()
					res[i] = r.call(ops[i])
				}(i)
			}
			start.Done()
			done.Wait()
			r.settle()
			emit("Race", map[string]interface{}{"ops": ops}, res)
		}
		r.srv.Stop()
		os.RemoveAll(storagePath)
	}
}
