//go:build verif

package server

// C12, Server.apply binding: the behaviours of spec/Groups.tla executed on two
// real (never-started) Servers.  Every committed operation goes through
// Server.apply on both.  The announcement of a deleted stream to the consumer
// groups (the function metadataAPI.removeStream returns) passes the gate hook
// verifGate("metadata.stream_deleted"): called from the goroutine that applies
// (the driver's) it passes at once; an announcement that arrives from ANY OTHER
// goroutine is not part of the apply and is held until the behaviour is over -
// the state recorded after the DELETE_STREAM then shows what a later operation
// would meet (the schedule of the repaired findings C12-stream-deleted-*).

import (
	"bytes"
	"fmt"
	"io"
	"os"
	"path/filepath"
	"runtime"
	"strings"
	"sync"
	"testing"

	proto "github.com/liftbridge-io/liftbridge/server/protocol"
)

type v12Gate struct {
	mu     sync.Mutex
	driver string          // goroutine id of the driver (which calls Server.apply)
	hold   bool            // announcements from other goroutines are held (false: they pass)
	parked []chan struct{} // announcements that arrived from other goroutines
}

// v12GID returns the id of the calling goroutine ("goroutine 12 [running]:...")
func v12GID() string {
	buf := make([]byte, 64)
	n := runtime.Stack(buf, false)
	f := strings.Fields(string(buf[:n]))
	if len(f) < 2 {
		return ""
	}
	return f[1]
}

func (g *v12Gate) hook(name string) {
	if name != "metadata.stream_deleted" || v12GID() == g.driver {
		return
	}
	g.mu.Lock()
	if !g.hold {
		g.mu.Unlock()
		return
	}
	ch := make(chan struct{})
	g.parked = append(g.parked, ch)
	g.mu.Unlock()
	<-ch
}

// holdOthers: from now on announcements made outside the applying goroutine are held
func (g *v12Gate) holdOthers() {
	g.mu.Lock()
	g.hold = true
	g.mu.Unlock()
}

// releaseAll lets the held announcements go and those that have not arrived yet pass
// (end of a behaviour, or a server is about to be stopped)
func (g *v12Gate) releaseAll() {
	g.mu.Lock()
	g.hold = false
	for _, ch := range g.parked {
		close(ch)
	}
	g.parked = nil
	g.mu.Unlock()
}

type v12FSMRun struct {
	servers []string
	streams []string
	srv     map[string]*Server
	dirs    map[string]string
	idx     uint64
	gate    *v12Gate
	names   v12Names
}

const v12GroupID = "g"

func (r *v12FSMRun) state() v12State {
	st := v12State{Gs: map[string]v12Group{}, Parts: map[string]int32{}, Paused: map[string][]int32{}, Idx: r.idx}
	for _, v := range r.servers {
		st.Gs[v] = r.names.group(v12Project(r.srv[v].metadata.GetConsumerGroup(v12GroupID)))
	}
	for _, s := range r.streams {
		// the partitions the stream HAS (read from the store, not through the callback
		// the groups use: that one is code under test)
		st.Parts[s], st.Paused[s] = v12MetaStream(r.srv[r.servers[0]].metadata, r.names.r(s))
	}
	return st
}

// admitted runs the REAL leader-side precondition check of the operation
// (metadata.go check*Preconditions, what raftNode.applyOperation calls before
// proposing) on the first server, which plays the metadata leader.
func (r *v12FSMRun) admitted(op *proto.RaftLog) (ok bool) {
	m := r.srv[r.servers[0]].metadata
	defer func() {
		if p := recover(); p != nil {
			ok = false
		}
	}()
	var err error
	switch op.Op {
	case proto.Op_CREATE_STREAM:
		err = m.checkCreateStreamPreconditions(op)
	case proto.Op_DELETE_STREAM:
		err = m.checkDeleteStreamPreconditions(op)
	case proto.Op_CREATE_CONSUMER_GROUP:
		err = m.checkCreateConsumerGroupPreconditions(op)
	case proto.Op_JOIN_CONSUMER_GROUP:
		err = m.checkJoinConsumerGroupPreconditions(op)
	case proto.Op_LEAVE_CONSUMER_GROUP:
		err = m.checkLeaveConsumerGroupPreconditions(op)
	case proto.Op_CHANGE_CONSUMER_GROUP_COORDINATOR:
		err = m.checkChangeGroupCoordinatorPreconditions(op)
	case proto.Op_PAUSE_STREAM:
		err = m.checkPauseStreamPreconditions(op)
	case proto.Op_RESUME_STREAM:
		err = m.checkResumeStreamPreconditions(op)
	}
	return err == nil
}

func (r *v12FSMRun) applyAll(o map[string]interface{}, obs *v12Obs) {
	if !r.admitted(v06BuildOp(o)) {
		obs.Err = "precondition"
		return
	}
	r.idx++
	for _, v := range r.servers {
		if e := v06ApplyErr(r.srv[v], v06BuildOp(o), r.idx, false); e != "" && obs.Err == "" {
			obs.Err = e
		}
	}
}

// realList: the stream list of a request with the real names
func (r *v12FSMRun) realList(step map[string]interface{}) []interface{} {
	out := []interface{}{}
	for _, s := range vFStrs(step, "streams") {
		out = append(out, r.names.r(s))
	}
	return out
}

func (r *v12FSMRun) step(id int, step map[string]interface{}) v12Event {
	a := vStr(step, "a")
	args := map[string]interface{}{}
	obs := v12Obs{A: a, Ret: map[string][]int32{}}
	switch a {
	case "CreateStream":
		s, n := vStr(step, "s"), vInt(step, "n")
		args["s"], args["n"] = s, n
		r.applyAll(map[string]interface{}{"op": "CreateStream", "s": r.names.r(s), "n": float64(n),
			"R": []interface{}{"r1", "r2", "r3"}, "ldr": "r1"}, &obs)
	case "DeleteStream":
		s := vStr(step, "s")
		args["s"] = s
		r.applyAll(map[string]interface{}{"op": "DeleteStream", "s": r.names.r(s)}, &obs)
	case "Pause", "Resume":
		// PAUSE_STREAM / RESUME_STREAM of one partition through Server.apply on both servers
		s, p := vStr(step, "s"), vInt(step, "p")
		args["s"], args["p"] = s, p
		r.applyAll(map[string]interface{}{"op": a, "s": r.names.r(s), "pids": []interface{}{float64(p)}}, &obs)
	case "CreateGroup":
		c, coord := vStr(step, "c"), vStr(step, "coord")
		args["c"], args["coord"], args["streams"] = c, coord, vFStrs(step, "streams")
		r.applyAll(map[string]interface{}{"op": "CreateGroup", "g": v12GroupID, "c": c, "S": r.realList(step),
			"coord": coord}, &obs)
	case "Join":
		c := vStr(step, "c")
		args["c"], args["streams"] = c, vFStrs(step, "streams")
		r.applyAll(map[string]interface{}{"op": "JoinGroup", "g": v12GroupID, "c": c, "S": r.realList(step)}, &obs)
	case "Leave":
		c, how := vStr(step, "c"), vStrDef(step, "how", "leave")
		args["c"], args["how"] = c, how
		r.applyAll(map[string]interface{}{"op": "LeaveGroup", "g": v12GroupID, "c": c, "expired": how == "expire"}, &obs)
	case "ChangeCoordinator":
		coord := vStr(step, "coord")
		args["coord"] = coord
		r.applyAll(map[string]interface{}{"op": "ChangeCoordinator", "g": v12GroupID, "coord": coord}, &obs)
	case "Restore":
		// server v takes a snapshot (Server.Snapshot, fsmSnapshot.Persist), stops, and a
		// new Server over the same directory restores it (Server.Restore) and finishes
		// recovery (finishRestore, as Server.Start does when the snapshot covers the log)
		v := vStr(step, "srv")
		args["srv"] = v
		obs.Srv = v
		if r.srv[v].metadata.GetConsumerGroup(v12GroupID) == nil {
			obs.A, a = "Skip", "Skip"
			break
		}
		func() {
			defer func() {
				if p := recover(); p != nil {
					obs.Err = fmt.Sprintf("panic:%v", p)
				}
			}()
			fs, err := r.srv[v].Snapshot()
			if err != nil {
				panic(err)
			}
			sink := &v06Sink{}
			if err := fs.Persist(sink); err != nil {
				panic(err)
			}
			ms := &proto.MetadataSnapshot{}
			if err := ms.Unmarshal(sink.Bytes()[4:]); err != nil {
				panic(err)
			}
			order := []string{}
			for _, g := range ms.Groups {
				if g.Id == v12GroupID {
					for _, m := range g.Members {
						order = append(order, m.Id)
					}
				}
			}
			args["order"] = order
			// (announcements held at the gate - made outside the apply - would block the stop)
			r.gate.releaseAll()
			v06Close(r.srv[v])
			r.gate.holdOthers()
			r.srv[v] = v06NewServer(v, r.dirs[v])
			if err := r.srv[v].Restore(io.NopCloser(bytes.NewReader(sink.Bytes()))); err != nil {
				obs.Err = "other:" + err.Error()
				return
			}
			r.srv[v].goroutineWait.Wait()
			if err := r.srv[v].finishRestore(); err != nil {
				obs.Err = "other:" + err.Error()
			}
			r.srv[v].goroutineWait.Wait()
		}()
	case "GetAssignments":
		v, c, d := vStr(step, "srv"), vStr(step, "c"), uint64(vInt(step, "d"))
		obs.Srv = v
		e := uint64(0)
		if g := r.srv[v].metadata.GetConsumerGroup(v12GroupID); g != nil {
			_, epoch := g.GetCoordinator()
			e = epoch
			if d <= epoch {
				e = epoch - d
			}
		}
		args["srv"], args["c"], args["e"] = v, c, e
		asg, _, err := r.srv[v].metadata.GetConsumerGroupAssignments(v12GroupID, c, e)
		obs.Err = v12ErrClass(err)
		if err == nil {
			obs.Ret = r.names.ret(asg)
		}
	default:
		panic("unknown action " + a)
	}
	return v12Event{T: id, A: a, Args: args, St: r.state(), Obs: obs}
}

func TestVerifGroupsFSM(t *testing.T) {
	vFSelectIO("FSM")
	sf := vLoadStimuli(t)
	tw := vOpenTrace(t)
	defer tw.Close()
	base, err := os.MkdirTemp("", "v12")
	if err != nil {
		t.Fatal(err)
	}
	gate := &v12Gate{driver: v12GID()}
	VerifGateHook = gate.hook
	defer func() { VerifGateHook = nil }()
	for _, b := range sf.Behaviours {
		run := &v12FSMRun{servers: vFStrs(b.Cfg, "servers"), streams: vFStrs(b.Cfg, "streams"),
			srv: map[string]*Server{}, dirs: map[string]string{}, gate: gate, names: v12NamesOf(b.Cfg)}
		for _, v := range run.servers {
			run.dirs[v] = filepath.Join(base, fmt.Sprintf("%s%d", v, b.ID))
			run.srv[v] = v06NewServer(v, run.dirs[v])
		}
		// the streams that exist at the start are created under index 0
		init := b.Cfg["parts"].(map[string]interface{})
		for _, s := range run.streams {
			n, ok := init[s]
			if !ok || n.(float64) == 0 {
				continue
			}
			for _, v := range run.servers {
				op := &proto.RaftLog{Op: proto.Op_CREATE_STREAM, CreateStreamOp: v06BuildOp(map[string]interface{}{
					"op": "CreateStream", "s": run.names.r(s), "n": n, "R": []interface{}{"r1", "r2", "r3"}, "ldr": "r1"}).CreateStreamOp}
				if e := v06ApplyErr(run.srv[v], op, 0, false); e != "" {
					t.Fatalf("initial stream: %s", e)
				}
			}
		}
		tw.Emit(v12Event{T: b.ID, A: "Open", Args: map[string]interface{}{}, St: run.state(),
			Obs: v12Obs{A: "Open", Ret: map[string][]int32{}}})
		gate.holdOthers()
		failed := false
		for _, step := range b.Steps {
			ev := run.step(b.ID, step)
			failed = failed || strings.HasPrefix(ev.Obs.Err, "other:") || strings.HasPrefix(ev.Obs.Err, "panic:")
			tw.Emit(ev)
		}
		gate.releaseAll()
		for _, v := range run.servers {
			v06Close(run.srv[v])
			// (see TestVerifMetadataFSM: directories of a behaviour in which the code under
			// test failed stay until the process has exited)
			if !failed {
				os.RemoveAll(run.dirs[v])
			}
		}
	}
}
