//go:build verif

package server

// C06, end-to-end confirmation on a real one-node server (embedded NATS on a
// private port, single-node Raft): the operations go through the metadata
// leader API and Raft, snapshots are real Raft snapshots, a restart is
// Server.Stop + RunServerWithConfig over the same directories, so the
// replay-range detection inside Server.Apply (recovered flag, finishedRecovery
// at the last recovered entry) is the real one.  Recorded: the state before the
// restart and the state after recovery; TLC evaluates the same RS_*/NoDataLoss/
// NoResurrection predicates (Trace_MetadataFSM.tla, actions Sync/Restart/FinishReal).

import (
	"context"
	"os"
	"testing"
	"time"

	proto "github.com/liftbridge-io/liftbridge/server/protocol"
)

type v06Real struct {
	t        *testing.T
	cfg      *Config
	srv      *Server
	groupIDs []string
	pre      bool
}

func (r *v06Real) state(mode string, nrep int) (v06State, v06Other) {
	st := v06State{Streams: v06Streams(r.srv), Groups: v06Groups(r.srv, r.groupIDs), Grec: v06Grec(r.srv, r.groupIDs), LastPub: 0,
		Disk: v06Disk(r.cfg.DataDir), Applied: r.srv.getRaft().getCommitIndex(), Mode: mode, Nrep: nrep,
		Sref: v06Ref{Live: []string{}, Frozen: map[string][]v06Proto{}, Heads: map[string]v06Head{}, Groups: map[string]v06SnapGroup{}}}
	return st, v06Other{Streams: st.Streams, Groups: st.Groups}
}

func (r *v06Real) barrier() {
	deadline := time.Now().Add(30 * time.Second)
	for !(r.srv.IsRunning() && r.srv.getRaft() != nil && r.srv.IsLeader()) {
		if time.Now().After(deadline) {
			r.t.Fatalf("INCONCLUSIVE: restarted server did not become metadata leader")
		}
		time.Sleep(2 * time.Millisecond)
	}
	if err := r.srv.getRaft().Barrier(20 * time.Second).Error(); err != nil {
		r.t.Fatalf("INCONCLUSIVE: raft barrier: %v", err)
	}
	r.srv.goroutineWait.Add(0)
}

// apply sends the operation through the metadata leader API (preconditions,
// Raft, Server.Apply); errors are recorded, not judged.
func (r *v06Real) apply(o map[string]interface{}) string {
	ctx, cancel := context.WithTimeout(context.Background(), 20*time.Second)
	defer cancel()
	m := r.srv.metadata
	errOf := func(st interface{ Err() error }) string {
		if st == nil || st.Err() == nil {
			return ""
		}
		return "other:" + st.Err().Error()
	}
	switch vStr(o, "op") {
	case "CreateStream":
		s, n := vStr(o, "s"), int(vInt(o, "n"))
		subj := vStrDef(o, "subj", s)
		ps := make([]*proto.Partition, n)
		for i := range ps {
			ps[i] = &proto.Partition{Subject: subj, Stream: s, Id: int32(i), ReplicationFactor: 1}
		}
		st := m.CreateStream(ctx, &proto.CreateStreamOp{Stream: &proto.Stream{Name: s, Subject: subj, Partitions: ps,
			Config: v06Config(vStrDef(o, "cfg", "none"))}})
		if st == nil {
			v06WriteMarkers(r.cfg.DataDir, s, n, 1)
			return ""
		}
		return errOf(st)
	case "DeleteStream":
		if st := m.DeleteStream(ctx, &proto.DeleteStreamOp{Stream: vStr(o, "s")}); st != nil {
			return errOf(st)
		}
	case "Pause":
		if st := m.PauseStream(ctx, &proto.PauseStreamOp{Stream: vStr(o, "s"), Partitions: v06Ints(o, "pids"),
			ResumeAll: vBool(o, "resumeAll")}); st != nil {
			return errOf(st)
		}
	case "Resume":
		if st := m.ResumeStream(ctx, &proto.ResumeStreamOp{Stream: vStr(o, "s"), Partitions: v06Ints(o, "pids")}); st != nil {
			return errOf(st)
		}
	case "SetReadonly":
		if st := m.SetStreamReadonly(ctx, &proto.SetStreamReadonlyOp{Stream: vStr(o, "s"),
			Partitions: v06Ints(o, "pids"), Readonly: vBool(o, "b")}); st != nil {
			return errOf(st)
		}
	case "CreateGroup", "JoinGroup":
		if _, _, st := m.JoinConsumerGroup(ctx, &proto.JoinConsumerGroupOp{GroupId: vStr(o, "g"),
			ConsumerId: vStr(o, "c"), Streams: vFStrs(o, "S")}); st != nil {
			return errOf(st)
		}
	case "LeaveGroup":
		if st := m.LeaveConsumerGroup(ctx, &proto.LeaveConsumerGroupOp{GroupId: vStr(o, "g"),
			ConsumerId: vStr(o, "c")}); st != nil {
			return errOf(st)
		}
	default:
		return "unsupported"
	}
	return ""
}

func TestVerifMetadataRealRestart(t *testing.T) {
	vFSelectIO("REAL")
	sf := vLoadStimuli(t)
	tw := vOpenTrace(t)
	defer tw.Close()
	for _, b := range sf.Behaviours {
		os.RemoveAll(storagePath)
		cfg := vOneNodeConfig(t, "a")
		cfg.Groups.ConsumerTimeout = time.Hour
		cfg.Groups.CoordinatorTimeout = time.Hour
		cfg.Clustering.RaftSnapshots = 2
		r := &v06Real{t: t, cfg: cfg, groupIDs: vFStrs(b.Cfg, "groups")}
		r.srv = vOneNodeServer(t, cfg)
		emit := func(a, mode string, nrep int, args map[string]interface{}) {
			st, ot := r.state(mode, nrep)
			if a == "Open" {
				st.Snap = &v06Snap{Streams: map[string][]v06Proto{}, Heads: map[string]v06Head{}, Groups: map[string]v06SnapGroup{}}
			}
			tw.Emit(v06Event{T: b.ID, A: a, Args: args, St: st, Other: ot, Obs: v06Obs{A: a}})
		}
		emit("Open", "live", 0, map[string]interface{}{})
		errs := []string{}
		for _, step := range b.Steps {
			switch vStr(step, "a") {
			case "Apply":
				if e := r.apply(step["o"].(map[string]interface{})); e != "" {
					errs = append(errs, vStr(step["o"].(map[string]interface{}), "op")+":"+e)
				}
			case "Snapshot":
				if err := r.srv.getRaft().Snapshot().Error(); err != nil {
					errs = append(errs, "snapshot:"+err.Error())
				}
			case "Restart":
				emit("Sync", "live", 0, map[string]interface{}{"errs": append([]string{}, errs...)})
				if err := r.srv.Stop(); err != nil {
					t.Fatalf("INCONCLUSIVE: stop: %v", err)
				}
				// the state of a stopped process: nothing in memory, the directories
				st := v06State{Streams: map[string]v06Stream{}, Groups: map[string]v12Group{}, Grec: map[string]bool{}, Disk: v06Disk(cfg.DataDir),
					Mode: "replay", Sref: v06Ref{Live: []string{}, Frozen: map[string][]v06Proto{}, Heads: map[string]v06Head{}, Groups: map[string]v06SnapGroup{}}}
				for _, g := range r.groupIDs {
					st.Groups[g] = v12Group{}
					st.Grec[g] = false
				}
				tw.Emit(v06Event{T: b.ID, A: "Restart", Args: map[string]interface{}{}, St: st,
					Other: v06Other{Streams: st.Streams, Groups: st.Groups}, Obs: v06Obs{A: "Restart"}})
				r.srv = vOneNodeServer(t, cfg)
				r.barrier()
				emit("FinishReal", "live", 1, map[string]interface{}{})
			}
		}
		emit("Sync", "live", 0, map[string]interface{}{"errs": errs})
		r.srv.Stop()
		os.RemoveAll(storagePath)
	}
}
