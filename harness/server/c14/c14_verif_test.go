//go:build verif

package server

// C14 harness, package server:
//   TestVerifC14Nats    the decision table of spec/Envelope.tla fed to natsToProtoMessage
//   TestVerifC14Server  TLC-generated sequences of raw NATS publishes against a running
//                       one-node server; after every publish the stream's log is read back
// The harness records; TLC judges (Trace_Envelope.tla).

import (
	"bytes"
	"context"
	"encoding/json"
	"fmt"
	"hash/crc32"
	"math"
	"math/rand"
	"os"
	"sort"
	"strings"
	"testing"
	"time"

	client "github.com/liftbridge-io/liftbridge-api/v2/go"
	gnatsd "github.com/nats-io/nats-server/v2/server"
	"github.com/nats-io/nats.go"
	"google.golang.org/grpc"
	gproto "google.golang.org/protobuf/proto"

	"github.com/liftbridge-io/liftbridge/server/commitlog"
	proto "github.com/liftbridge-io/liftbridge/server/protocol"
)

var (
	vC14Magic    = []byte{0xB9, 0x0E, 0x43, 0xB4}
	vC14CrcTable = crc32.MakeTable(crc32.Castagnoli)
)

const vC14Deadline = 20 * time.Second

type vC14Key struct {
	Len        int  `json:"len"`
	MagicOK    bool `json:"magicOK"`
	VerOK      bool `json:"verOK"`
	CrcFlag    bool `json:"crcFlag"`
	OtherFlags bool `json:"otherFlags"`
	TypeOK     bool `json:"typeOK"`
	CrcOK      bool `json:"crcOK"`
}

type vC14St struct {
	K    string `json:"k"`
	Same bool   `json:"same"`
}

type vC14Rec struct {
	HL   int      `json:"hl"`
	PbOK bool     `json:"pbOK"`
	Fill int      `json:"fill"`
	St   []vC14St `json:"st"`
}

func vC14Pos(length, hl int) int {
	if hl >= 8 && hl <= length {
		return hl
	}
	return 8
}

func vC14Feasible(length, hl int, pbOK bool) bool {
	n := 0
	if p := vC14Pos(length, hl); length >= p {
		n = length - p
	}
	if pbOK {
		return n != 1
	}
	return n >= 1
}

// vC14Pad: q bytes (0 or >= 2) forming a protobuf field unknown to client.Message (field 15).
func vC14Pad(q int, rng *rand.Rand) []byte {
	if q == 0 {
		return nil
	}
	if q < 2 || q-2 > 127 {
		panic("cannot pad")
	}
	out := make([]byte, q)
	out[0] = 15<<3 | 2
	out[1] = byte(q - 2)
	for j := 2; j < q; j++ {
		out[j] = byte(rng.Intn(256))
	}
	return out
}

func vC14Bytes(rng *rand.Rand, max int) []byte {
	if max <= 0 {
		return nil
	}
	b := make([]byte, rng.Intn(max+1))
	rng.Read(b)
	return b
}

// vC14HeaderNoValue is a Message.headers map entry with a key and no value field
// (what a hand-written client can send): field 9, entry {1: key}.
func vC14HeaderNoValue(key string) []byte {
	entry := append([]byte{0x0A, byte(len(key))}, key...)
	return append([]byte{0x4A, byte(len(entry))}, entry...)
}

// vC14ValidMessage returns exactly n bytes that are a protobuf client.Message.
// shape "hdrNoValue" includes a header entry without a value when there is room; shape "hdrReserved" a
// header entry named like one of the two headers the server owns ("subject", "reply": the NATS subject and
// reply subject the payload arrived with, which the envelope must not be able to dictate).
func vC14ValidMessage(n int, shape string, rng *rand.Rand) []byte {
	if n == 0 {
		return []byte{}
	}
	if n == 1 {
		panic("no one-byte protobuf message")
	}
	for try := 0; try < 12; try++ {
		m := &client.Message{}
		budget := n / 2
		var reserved []byte
		if shape == "hdrReserved" && n >= 14 {
			key := []string{"subject", "reply"}[rng.Intn(2)]
			entry := append(append([]byte{0x0A, byte(len(key))}, key...), 0x12, 0x01, 'x')
			reserved = append([]byte{0x4A, byte(len(entry))}, entry...)
			budget = (n - len(reserved)) / 2
		}
		if rng.Intn(3) > 0 {
			m.Value = vC14Bytes(rng, budget)
		}
		if rng.Intn(2) == 0 {
			m.Key = vC14Bytes(rng, budget/2)
		}
		if rng.Intn(3) == 0 && budget > 6 {
			m.Headers = map[string][]byte{"h": vC14Bytes(rng, budget/3)}
			if rng.Intn(3) == 0 {
				m.Headers["subject"] = []byte("spoofed")
			}
		}
		if rng.Intn(4) == 0 && budget > 4 {
			m.CorrelationId = fmt.Sprintf("c%d", rng.Intn(100))
		}
		if rng.Intn(6) == 0 {
			m.Offset = int64(rng.Intn(5)) - 1
		}
		if shape == "occ" {
			m.Offset = -1 // no expected offset: storable on a stream with optimistic concurrency control
		}
		b, err := gproto.MarshalOptions{Deterministic: true}.Marshal(m)
		if err != nil {
			continue
		}
		if shape == "hdrNoValue" {
			b = append(b, vC14HeaderNoValue("nv")...)
		}
		b = append(b, reserved...)
		q := n - len(b)
		if q == 0 || (q >= 2 && q-2 <= 127) {
			return append(b, vC14Pad(q, rng)...)
		}
	}
	return vC14Pad(n, rng)
}

func vC14Invalid(n int, rng *rand.Rand) []byte {
	out := make([]byte, n)
	rng.Read(out)
	switch v := rng.Intn(3); {
	case v == 0 || n < 2 || n-2 >= 127:
		out[0] = 0x07
	case v == 1:
		out[0], out[1] = 0x1A, 0x7F // value field longer than the rest
	default:
		for j := range out {
			out[j] = 0xFF
		}
	}
	return out
}

type vC14Concrete struct {
	data    []byte
	payload []byte
	ref     *client.Message // reference decode of payload, nil if it is not a protobuf Message
}

func vC14Concretise(k vC14Key, hl int, pbOK bool, shape string, rng *rand.Rand) vC14Concrete {
	return vC14ConcretiseTyped(k, hl, pbOK, shape, rng, 0, nil)
}

// vC14ConcretiseTyped: typ is the envelope type the receiver expects; tmpl (if not nil) is the
// start of the protobuf payload, padded with an unknown field to the exact size when there is room.
func vC14ConcretiseTyped(k vC14Key, hl int, pbOK bool, shape string, rng *rand.Rand, typ byte, tmpl []byte) vC14Concrete {
	data := make([]byte, k.Len)
	hdr := make([]byte, 8)
	copy(hdr, vC14Magic)
	if !k.MagicOK {
		hdr[rng.Intn(4)] ^= byte(1 + rng.Intn(255))
	}
	if !k.VerOK {
		hdr[4] = byte(1 + rng.Intn(255))
	}
	hdr[5] = byte(hl)
	if k.CrcFlag {
		hdr[6] |= 1
	}
	if k.OtherFlags {
		hdr[6] |= byte(1+rng.Intn(127)) << 1
	}
	hdr[7] = typ
	if !k.TypeOK {
		hdr[7] = byte(rng.Intn(256))
		for hdr[7] == typ {
			hdr[7] = byte(rng.Intn(256))
		}
	}
	copy(data, hdr)
	c := vC14Concrete{data: data}
	p := vC14Pos(k.Len, hl)
	if k.Len >= p {
		for j := 8; j < p; j++ {
			data[j] = byte(rng.Intn(256))
		}
		if n := k.Len - p; pbOK && tmpl != nil {
			switch q := n - len(tmpl); {
			case q == 0 || (q >= 2 && q-2 <= 127):
				c.payload = append(append([]byte{}, tmpl...), vC14Pad(q, rng)...)
			case n == 0:
				c.payload = []byte{}
			default:
				c.payload = vC14Pad(n, rng)
			}
		} else if pbOK {
			c.payload = vC14ValidMessage(k.Len-p, shape, rng)
		} else {
			c.payload = vC14Invalid(k.Len-p, rng)
		}
		copy(data[p:], c.payload)
		ref := new(client.Message)
		if gproto.Unmarshal(c.payload, ref) == nil {
			c.ref = ref
		}
	}
	if k.Len >= 12 && hl >= 12 && hl <= k.Len {
		crc := crc32.Checksum(data[hl:], vC14CrcTable)
		if !k.CrcOK {
			crc ^= uint32(1 + rng.Intn(1<<31-1))
		}
		data[8], data[9], data[10], data[11] = byte(crc>>24), byte(crc>>16), byte(crc>>8), byte(crc)
	}
	return c
}

func vC14Rng(seed int64, k vC14Key, hl int, pbOK bool, fill int) *rand.Rand {
	h := int64(k.Len)*1000003 + int64(hl)*7919 + int64(fill)*104729
	for j, b := range []bool{k.MagicOK, k.VerOK, k.CrcFlag, k.OtherFlags, k.TypeOK, k.CrcOK, pbOK} {
		if b {
			h += 1 << (40 + uint(j))
		}
	}
	return rand.New(rand.NewSource(seed*2654435761 + h))
}

// ---- projection of a stored / converted message --------------------------------

type vC14Fields struct {
	key, value       []byte
	headers          map[string][]byte
	ackInbox, corrID string
	ackPolicy        client.AckPolicy
	full             bool   // ackInbox, corrID, ackPolicy are available (not persisted in the log)
	natsSubject      string // what the server recorded as the NATS subject the payload arrived on
}

func vC14FromCommitlog(m *commitlog.Message) vC14Fields {
	return vC14Fields{key: m.Key, value: m.Value, headers: m.Headers, ackInbox: m.AckInbox,
		corrID: m.CorrelationID, ackPolicy: m.AckPolicy, full: true}
}

func vC14FromSerialized(m commitlog.SerializedMessage) vC14Fields {
	h := m.Headers()
	return vC14Fields{key: m.Key(), value: m.Value(), headers: h, natsSubject: string(h["subject"])}
}

func vC14FromClient(m *client.Message) vC14Fields {
	return vC14Fields{key: m.Key, value: m.Value, headers: m.Headers, natsSubject: m.Subject}
}

func vC14UserHeaders(h map[string][]byte) map[string]string {
	out := map[string]string{}
	for k, v := range h {
		if k == "subject" || k == "reply" {
			continue
		}
		out[k] = string(v)
	}
	return out
}

// vC14Classify says how the observed message f relates to the published bytes:
// "raw" = the bytes verbatim as an opaque value, "msg" = a decoded message
// (same: its fields are those of the message placed at the payload position).
func vC14Classify(f vC14Fields, c vC14Concrete) vC14St {
	if bytes.Equal(f.value, c.data) && len(f.key) == 0 && len(vC14UserHeaders(f.headers)) == 0 &&
		f.ackInbox == "" && f.corrID == "" {
		return vC14St{K: "raw", Same: true}
	}
	same := false
	if c.ref != nil {
		a, b := vC14UserHeaders(f.headers), vC14UserHeaders(c.ref.Headers)
		same = bytes.Equal(f.key, c.ref.Key) && bytes.Equal(f.value, c.ref.Value) &&
			(!f.full || (f.ackInbox == c.ref.AckInbox && f.corrID == c.ref.CorrelationId && f.ackPolicy == c.ref.AckPolicy)) &&
			len(a) == len(b)
		for k, v := range b {
			if w, ok := a[k]; !ok || w != v {
				same = false
			}
		}
	}
	return vC14St{K: "msg", Same: same}
}

func vC14Nats(c vC14Concrete) (out vC14St) {
	defer func() {
		if r := recover(); r != nil {
			out = vC14St{K: "Crash"}
		}
	}()
	m := natsToProtoMessage(&nats.Msg{Subject: "c14", Reply: "r", Data: append([]byte(nil), c.data...)}, 1)
	st := vC14Classify(vC14FromCommitlog(m), c)
	if string(m.Headers["subject"]) != "c14" || string(m.Headers["reply"]) != "r" {
		st.Same = false
	}
	return st
}

type vC14TableCfg struct {
	Lens  []int `json:"lens"`
	HLs   []int `json:"hls"`
	Fills int   `json:"fills"`
	Seed  int64 `json:"seed"`
	Only  []struct {
		Key  vC14Key `json:"key"`
		HL   int     `json:"hl"`
		PbOK bool    `json:"pbOK"`
		Fill int     `json:"fill"`
	} `json:"only"`
}

func TestVerifC14Nats(t *testing.T) {
	p := os.Getenv("VERIF_STIMULI")
	if p == "" {
		t.Skip("VERIF_STIMULI not set")
	}
	raw, err := os.ReadFile(p)
	if err != nil {
		t.Fatal(err)
	}
	var cfg vC14TableCfg
	if err := json.Unmarshal(raw, &cfg); err != nil {
		t.Fatal(err)
	}
	tw := vOpenTrace(t)
	defer tw.Close()
	tw.Emit(map[string]interface{}{"a": "Open", "t": 0})
	run := func(k vC14Key, hl int, pbOK bool, fill int) vC14Rec {
		rng := vC14Rng(cfg.Seed, k, hl, pbOK, fill)
		shape := []string{"plain", "hdrNoValue", "hdrReserved"}[fill%3]
		return vC14Rec{HL: hl, PbOK: pbOK, Fill: fill, St: []vC14St{vC14Nats(vC14Concretise(k, hl, pbOK, shape, rng))}}
	}
	tid := 0
	if len(cfg.Only) > 0 {
		for _, o := range cfg.Only {
			tid++
			tw.Emit(map[string]interface{}{"a": "Table", "t": tid, "level": "nats", "partial": true, "key": o.Key,
				"recs": []vC14Rec{run(o.Key, o.HL, o.PbOK, o.Fill)}})
		}
		return
	}
	for _, ln := range cfg.Lens {
		for bits := 0; bits < 64; bits++ {
			k := vC14Key{Len: ln, MagicOK: bits&1 != 0, VerOK: bits&2 != 0, CrcFlag: bits&4 != 0,
				OtherFlags: bits&8 != 0, TypeOK: bits&16 != 0, CrcOK: bits&32 != 0}
			recs := []vC14Rec{}
			for _, hl := range cfg.HLs {
				for _, pbOK := range []bool{false, true} {
					if !vC14Feasible(ln, hl, pbOK) {
						continue
					}
					for fill := 0; fill < cfg.Fills; fill++ {
						recs = append(recs, run(k, hl, pbOK, fill))
					}
				}
			}
			tid++
			tw.Emit(map[string]interface{}{"a": "Table", "t": tid, "level": "nats", "partial": false, "key": k, "recs": recs})
		}
	}
}

// ---- running server ------------------------------------------------------------

// private embedded-NATS port via the shared one-node helpers
func vC14StartServer(t *testing.T) (*Server, string) {
	cfg := vOneNodeConfig(t, "a")
	return vOneNodeServer(t, cfg), cfg.NATS.Servers[0]
}

// vC14Internal: subject, expected envelope type and request template of an internal RPC handler.
// Shapes are well-formed requests with missing sub-messages or unexpected ids.
func vC14Internal(srv *Server, part *partition, stream, h string, shape int) (string, byte, []byte) {
	id := srv.config.Clustering.ServerID
	str := func(field int, v string) []byte { return append([]byte{byte(field<<3 | 2), byte(len(v))}, v...) }
	switch h {
	case "propagate": // PropagatedRequest: type 8
		var tmpl []byte
		switch {
		case shape == 0:
			tmpl = []byte{}
		case shape <= 13:
			tmpl = []byte{0x08, byte(shape)} // an op without its sub-message
		case shape == 14:
			tmpl = []byte{0x12, 0x00} // CREATE_STREAM with a CreateStreamOp that has no stream
		case shape == 15:
			tmpl = []byte{0x08, 0x01, 0x1A, 0x00} // SHRINK_ISR with an empty ShrinkISROp
		default:
			// Op X carrying the (empty) sub-message of operation Y, for every pair of operations
			ops := []byte{0, 1, 2, 4, 5, 6, 7, 9, 11, 12, 13}
			fields := []byte{2, 3, 4, 5, 6, 7, 8, 9, 10, 11, 12}
			k := (shape - 16) % (len(ops) * len(fields))
			op, field := ops[k/len(fields)], fields[k%len(fields)]
			tmpl = []byte{}
			if op != 0 {
				tmpl = append(tmpl, 0x08, op)
			}
			tmpl = append(tmpl, field<<3|2, 0x00)
		}
		return srv.getPropagateInbox(), 8, tmpl
	case "serverinfo": // ServerInfoRequest: type 10
		if shape%2 == 1 {
			return srv.getServerInfoInbox(), 10, str(1, "x")
		}
		return srv.getServerInfoInbox(), 10, []byte{}
	case "partstatus": // PartitionStatusRequest: type 12
		if shape%2 == 1 {
			return srv.getPartitionStatusInbox(id), 12, str(1, stream)
		}
		return srv.getPartitionStatusInbox(id), 12, []byte{}
	case "notify": // PartitionNotification: type 14
		if shape%2 == 1 {
			return srv.getPartitionNotificationInbox(id), 14, str(1, stream)
		}
		return srv.getPartitionNotificationInbox(id), 14, []byte{}
	case "replreq": // ReplicationRequest: type 2
		switch shape % 4 {
		case 1:
			return part.getReplicationRequestInbox(), 2, str(1, id) // the leader itself as replica id
		case 2:
			return part.getReplicationRequestInbox(), 2, str(1, "zzz")
		case 3:
			return part.getReplicationRequestInbox(), 2, append(str(1, id), 0x18, 0x63) // wrong leader epoch
		}
		return part.getReplicationRequestInbox(), 2, []byte{}
	default: // leaderoffset, LeaderEpochOffsetRequest: type 6
		if shape%2 == 1 {
			return part.getLeaderOffsetRequestInbox(), 6, []byte{0x08, 0x05}
		}
		return part.getLeaderOffsetRequestInbox(), 6, []byte{}
	}
}

// vC14BuildPublish concretises one publish of a stimulus.  Shapes "hdrMany:<n>" are publish envelopes
// marshalled by the protocol package itself with n header entries (the header count is a 16-bit field of
// the stored record); for them the recorded abstract input carries the real length.
func vC14BuildPublish(step map[string]interface{}, seed int64) (vC14Concrete, map[string]interface{}) {
	im := step["i"].(map[string]interface{})
	pbOK, id, shape := vBool(step, "pbOK"), int(vInt(step, "id")), vStrDef(step, "shape", "plain")
	if strings.HasPrefix(shape, "hdrMany:") {
		n := 0
		fmt.Sscanf(shape, "hdrMany:%d", &n)
		m := &client.Message{Value: []byte("many"), Headers: make(map[string][]byte, n)}
		for j := 0; j < n; j++ {
			m.Headers[fmt.Sprintf("h%05d", j)] = []byte{byte(j)}
		}
		data, err := proto.MarshalPublish(m)
		if err != nil {
			panic(err)
		}
		i2 := map[string]interface{}{"len": len(data), "magicOK": true, "verOK": true, "hl": 8, "crcFlag": false,
			"otherFlags": false, "typeOK": true, "crcOK": true}
		return vC14Concrete{data: data, payload: data[8:], ref: m}, map[string]interface{}{"i": i2, "pbOK": true, "id": id}
	}
	k := vC14Key{Len: int(vInt(im, "len")), MagicOK: vBool(im, "magicOK"), VerOK: vBool(im, "verOK"),
		CrcFlag: vBool(im, "crcFlag"), OtherFlags: vBool(im, "otherFlags"), TypeOK: vBool(im, "typeOK"),
		CrcOK: vBool(im, "crcOK")}
	hl := int(vInt(im, "hl"))
	c := vC14Concretise(k, hl, pbOK, shape, vC14Rng(seed, k, hl, pbOK, id))
	return c, map[string]interface{}{"i": im, "pbOK": pbOK, "id": id}
}

// vC14NumericShapes: well-formed propagated operations whose numeric fields take boundary values
// (negative, zero, minimum, maximum); the metadata leader must answer or drop them, not die.
func vC14NumericShapes(name string) []*proto.PropagatedRequest {
	cs := func(rf int32, id int32, n int) *proto.PropagatedRequest {
		parts := []*proto.Partition{}
		for j := 0; j < n; j++ {
			parts = append(parts, &proto.Partition{Subject: name, Stream: name, Id: id, ReplicationFactor: rf})
		}
		return &proto.PropagatedRequest{Op: proto.Op_CREATE_STREAM,
			CreateStreamOp: &proto.CreateStreamOp{Stream: &proto.Stream{Name: name, Subject: name, Partitions: parts}}}
	}
	const maxU = ^uint64(0)
	return []*proto.PropagatedRequest{
		cs(-2, 0, 1), cs(-2147483648, 0, 1), cs(2147483647, 0, 1), cs(0, 0, 1), cs(-3, -1, 2), cs(1, 0, 0),
		{Op: proto.Op_SHRINK_ISR, ShrinkISROp: &proto.ShrinkISROp{Stream: name, Partition: -1, ReplicaToRemove: "x", Leader: "y", LeaderEpoch: maxU}},
		{Op: proto.Op_EXPAND_ISR, ExpandISROp: &proto.ExpandISROp{Stream: name, Partition: 2147483647, ReplicaToAdd: "x", Leader: "y", LeaderEpoch: maxU}},
		{Op: proto.Op_REPORT_LEADER, ReportLeaderOp: &proto.ReportLeaderOp{Stream: name, Partition: -2147483648, Replica: "x", Leader: "y", LeaderEpoch: maxU}},
		{Op: proto.Op_PAUSE_STREAM, PauseStreamOp: &proto.PauseStreamOp{Stream: name, Partitions: []int32{-1, 2147483647}}},
		{Op: proto.Op_RESUME_STREAM, ResumeStreamOp: &proto.ResumeStreamOp{Stream: name, Partitions: []int32{-2147483648}}},
		{Op: proto.Op_SET_STREAM_READONLY, SetStreamReadonlyOp: &proto.SetStreamReadonlyOp{Stream: name, Partitions: []int32{-1}, Readonly: true}},
		{Op: proto.Op_REPORT_CONSUMER_GROUP_COORDINATOR, ReportConsumerGroupCoordinatorOp: &proto.ReportConsumerGroupCoordinatorOp{GroupId: name, ConsumerId: "c", Coordinator: "z", Epoch: maxU}},
		{Op: proto.Op(2147483647)},
	}
}

// ---- the inventory of NATS subjects ----------------------------------------------

// vC14LiveSubjects: the subjects the server's NATS connections are subscribed to right now, read from
// the embedded NATS server's subscription list (everything in the global account that does not belong
// to the harness' own connection), with namespace, server id, stream name and numbers replaced by
// NS, ID, STREAM, N (a partition suffix of the stream subject is dropped).
func vC14LiveSubjects(srv *Server, own uint64, stream string) ([]string, []string, error) {
	sz, err := srv.embeddedNATS.Subsz(&gnatsd.SubszOptions{Subscriptions: true, Limit: 100000})
	if err != nil {
		return nil, nil, err
	}
	ns, id := srv.config.Clustering.Namespace, srv.config.Clustering.ServerID
	set := map[string]bool{}
	raw := []string{}
	for _, d := range sz.Subs {
		if d.Cid == own || strings.HasPrefix(d.Subject, "$SYS") || strings.HasPrefix(d.Account, "$SYS") {
			continue
		}
		raw = append(raw, d.Subject)
		subj := d.Subject
		if strings.HasPrefix(subj, ns+".") {
			subj = "NS." + subj[len(ns)+1:]
		}
		toks := strings.Split(subj, ".")
		for j, tk := range toks {
			switch {
			case tk == stream:
				toks[j] = "STREAM"
			case tk == id:
				toks[j] = "ID"
			case tk != "" && strings.Trim(tk, "0123456789") == "":
				toks[j] = "N"
			}
		}
		pat := strings.Join(toks, ".")
		if pat == "STREAM.N" {
			pat = "STREAM"
		}
		if strings.HasPrefix(pat, "NS.ack.") {
			pat = "NS.ack.X"
		}
		set[pat] = true
	}
	out := []string{}
	for k := range set {
		out = append(out, k)
	}
	sort.Strings(out)
	return out, raw, nil
}

// vC14SubjectRequest: subject, envelope type and protobuf payload of a well-formed message for subject h
// naming the entities ent (spec/Envelope.tla EntsOf) - resolved against what really exists on the server.
func vC14SubjectRequest(srv *Server, part *partition, stream, h string, ent map[string]interface{}, tag string) (string, byte, []byte, error) {
	id := srv.config.Clustering.ServerID
	name := map[string]string{"absent": "c14-no-such-stream", "empty": "", "present": stream}[vStr(ent, "s")]
	count := int32(0)
	if st := srv.metadata.GetStream(stream); st != nil {
		count = int32(len(st.GetPartitions()))
	}
	pid := map[string]int32{"first": 0, "last": count - 1, "count": count, "neg": -1, "max": math.MaxInt32, "min": math.MinInt32}[vStr(ent, "p")]
	replica := map[string]string{"self": id, "unknown": "zzz", "empty": ""}[vStr(ent, "r")]
	part.mu.RLock()
	cur := part.LeaderEpoch
	part.mu.RUnlock()
	epoch := map[string]uint64{"zero": 0, "current": cur, "other": cur + 7, "max": math.MaxUint64}[vStr(ent, "e")]
	var (
		data []byte
		err  error
	)
	strip := func(subject string, typ byte) (string, byte, []byte, error) {
		if err != nil {
			return "", 0, nil, err
		}
		return subject, typ, append([]byte{}, data[8:]...), nil // canonical envelope: the payload follows the 8-byte header
	}
	switch h {
	case "notify":
		data, err = proto.MarshalPartitionNotification(&proto.PartitionNotification{Stream: name, Partition: pid})
		return strip(srv.getPartitionNotificationInbox(id), 14)
	case "partstatus":
		data, err = proto.MarshalPartitionStatusRequest(&proto.PartitionStatusRequest{Stream: name, Partition: pid})
		return strip(srv.getPartitionStatusInbox(id), 12)
	case "serverinfo":
		data, err = proto.MarshalServerInfoRequest(&proto.ServerInfoRequest{Id: replica})
		return strip(srv.getServerInfoInbox(), 10)
	case "replreq":
		data, err = proto.MarshalReplicationRequest(&proto.ReplicationRequest{ReplicaID: replica, Offset: part.log.NewestOffset(), LeaderEpoch: epoch})
		return strip(part.getReplicationRequestInbox(), 2)
	case "leaderoffset":
		data, err = proto.MarshalLeaderEpochOffsetRequest(&proto.LeaderEpochOffsetRequest{LeaderEpoch: epoch})
		return strip(part.getLeaderOffsetRequestInbox(), 6)
	case "join":
		data, err = proto.MarshalRaftJoinRequest(&proto.RaftJoinRequest{NodeID: id, NodeAddr: id})
		return strip(fmt.Sprintf("%s.join", srv.baseMetadataRaftSubject()), 4)
	case "raftaccept":
		return fmt.Sprintf("%s.%s.accept", srv.baseMetadataRaftSubject(), id), 0, nil, nil
	case "ack", "ackasync":
		code := map[string]int32{"zero": 0, "current": 2, "other": 99, "max": math.MaxInt32}[vStr(ent, "e")]
		// the correlation id names the step: an answer that comes late is not taken for the next step's
		data, err = proto.MarshalAck(&client.Ack{Stream: name, PartitionSubject: name, MsgSubject: name, Offset: 3,
			CorrelationId: tag, AckError: client.Ack_Error(code)})
		return strip("", 1)
	case "propagate":
		req := &proto.PropagatedRequest{}
		switch vStr(ent, "op") {
		case "shrink":
			req.Op = proto.Op_SHRINK_ISR
			req.ShrinkISROp = &proto.ShrinkISROp{Stream: name, Partition: pid, ReplicaToRemove: replica, Leader: id, LeaderEpoch: epoch}
		case "expand":
			req.Op = proto.Op_EXPAND_ISR
			req.ExpandISROp = &proto.ExpandISROp{Stream: name, Partition: pid, ReplicaToAdd: replica, Leader: id, LeaderEpoch: epoch}
		case "report":
			req.Op = proto.Op_REPORT_LEADER
			req.ReportLeaderOp = &proto.ReportLeaderOp{Stream: name, Partition: pid, Replica: replica, Leader: id, LeaderEpoch: epoch}
		case "pause":
			req.Op = proto.Op_PAUSE_STREAM
			req.PauseStreamOp = &proto.PauseStreamOp{Stream: name, Partitions: []int32{pid}}
		case "resume":
			req.Op = proto.Op_RESUME_STREAM
			req.ResumeStreamOp = &proto.ResumeStreamOp{Stream: name, Partitions: []int32{pid}}
		case "readonly":
			req.Op = proto.Op_SET_STREAM_READONLY
			req.SetStreamReadonlyOp = &proto.SetStreamReadonlyOp{Stream: name, Partitions: []int32{pid}, Readonly: true}
		case "create": // a stream that exists, created again
			req.Op = proto.Op_CREATE_STREAM
			req.CreateStreamOp = &proto.CreateStreamOp{Stream: &proto.Stream{Name: name, Subject: name,
				Partitions: []*proto.Partition{{Subject: name, Stream: name, Id: 0, ReplicationFactor: 1}}}}
		case "delete":
			req.Op = proto.Op_DELETE_STREAM
			req.DeleteStreamOp = &proto.DeleteStreamOp{Stream: name}
		case "joingroup", "leavegroup", "reportcoord":
			// the group of this behaviour, with one member, is made to exist through the real API
			group, member := "c14g-"+stream, "c14c"
			if g := srv.metadata.GetConsumerGroup(group); g == nil || !g.IsMember(member) {
				ctx, cancel := context.WithTimeout(context.Background(), vC14Deadline)
				_, jerr := srv.api.JoinConsumerGroup(ctx, &client.JoinConsumerGroupRequest{GroupId: group, ConsumerId: member, Streams: []string{stream}})
				cancel()
				if jerr != nil {
					return "", 0, nil, fmt.Errorf("join consumer group: %v", jerr)
				}
			}
			consumer := map[string]string{"self": member, "unknown": "zzz", "empty": ""}[vStr(ent, "r")]
			switch vStr(ent, "op") {
			case "joingroup":
				req.Op = proto.Op_JOIN_CONSUMER_GROUP
				req.JoinConsumerGroupOp = &proto.JoinConsumerGroupOp{GroupId: group, ConsumerId: consumer, Streams: []string{name}}
			case "leavegroup":
				gid := map[string]string{"absent": "c14g-no-such-group", "present": group}[vStr(ent, "s")]
				req.Op = proto.Op_LEAVE_CONSUMER_GROUP
				req.LeaveConsumerGroupOp = &proto.LeaveConsumerGroupOp{GroupId: gid, ConsumerId: consumer}
			default:
				gid := map[string]string{"absent": "c14g-no-such-group", "present": group}[vStr(ent, "s")]
				coord, cep := id, uint64(0)
				if g := srv.metadata.GetConsumerGroup(group); g != nil {
					coord, cep = g.GetCoordinator()
				}
				ep := map[string]uint64{"zero": 0, "current": cep, "other": cep + 7, "max": math.MaxUint64}[vStr(ent, "e")]
				req.Op = proto.Op_REPORT_CONSUMER_GROUP_COORDINATOR
				req.ReportConsumerGroupCoordinatorOp = &proto.ReportConsumerGroupCoordinatorOp{GroupId: gid, ConsumerId: consumer, Coordinator: coord, Epoch: ep}
			}
		}
		data, err = proto.MarshalPropagatedRequest(req)
		return strip(srv.getPropagateInbox(), 8)
	}
	return "", 0, nil, fmt.Errorf("unknown subject %q", h)
}

// vC14ReplyClass classifies what came back on the reply subject of a request.
func vC14ReplyClass(h string, data []byte) string {
	switch h {
	case "serverinfo":
		if _, err := proto.UnmarshalServerInfoResponse(data); err == nil {
			return "resp"
		}
	case "partstatus":
		if r, err := proto.UnmarshalPartitionStatusResponse(data); err == nil {
			if r.Exists {
				return "exists"
			}
			return "missing"
		}
	case "leaderoffset":
		if _, err := proto.UnmarshalLeaderEpochOffsetResponse(data); err == nil {
			return "resp"
		}
	case "join":
		if _, err := proto.UnmarshalRaftJoinResponse(data); err == nil {
			return "resp"
		}
	case "propagate":
		if _, err := proto.UnmarshalPropagatedResponse(data); err == nil {
			return "resp"
		}
	}
	return "garbled"
}

type vC14Entry struct {
	K  string `json:"k"`
	ID int    `json:"id"`
}

type vC14Pub struct {
	id int
	c  vC14Concrete
}

// vC14Project maps every observed message to the publish it stems from: the
// publish at the same position if it explains the message, else any other
// publish that explains it; a message nothing explains keeps the position's id
// with same=false (or k="bad" when there is no such publish).
func vC14Project(msgs []vC14Fields, pubs []vC14Pub, natsSubject string) ([]vC14Entry, bool) {
	out := []vC14Entry{}
	allSame := true
	for j, f := range msgs {
		if f.natsSubject != natsSubject {
			allSame = false // the server-owned subject header does not name the subject the bytes arrived on
		}
		e := vC14Entry{K: "bad", ID: 0}
		found := false
		if j < len(pubs) {
			st := vC14Classify(f, pubs[j].c)
			e = vC14Entry{K: st.K, ID: pubs[j].id}
			found = st.Same
		}
		for x := 0; !found && x < len(pubs); x++ {
			if st := vC14Classify(f, pubs[x].c); st.Same {
				e = vC14Entry{K: st.K, ID: pubs[x].id}
				found = true
			}
		}
		if !found {
			allSame = false
		}
		out = append(out, e)
	}
	return out, allSame
}

func vC14ReadLog(part *partition) ([]vC14Fields, error) {
	newest := part.log.NewestOffset()
	if newest < 0 {
		return nil, nil
	}
	rd, err := part.log.NewReader(0, true)
	if err != nil {
		return nil, err
	}
	ctx, cancel := context.WithTimeout(context.Background(), vC14Deadline)
	defer cancel()
	headers := make([]byte, 28)
	out := []vC14Fields{}
	for {
		m, off, _, _, err := rd.ReadMessage(ctx, headers)
		if err != nil {
			return out, err
		}
		out = append(out, vC14FromSerialized(m))
		if off >= newest {
			return out, nil
		}
	}
}

func TestVerifC14Server(t *testing.T) {
	sf := vLoadStimuli(t)
	tw := vOpenTrace(t)
	defer tw.Close()
	emitted := 0 // lines of the current behaviour on disk
	emit := func(ev interface{}) {
		tw.Emit(ev)
		tw.w.Flush()
		emitted++
	}
	intentPath := os.Getenv("VERIF_INTENT")
	intent := func(v map[string]interface{}) {
		if intentPath == "" {
			return
		}
		v["lines"] = emitted
		b, _ := json.Marshal(v)
		os.WriteFile(intentPath, b, 0o644)
	}
	defer os.RemoveAll(storagePath)
	srv, url := vC14StartServer(t)
	defer srv.Stop()
	nc, err := nats.Connect(url)
	if err != nil {
		t.Fatalf("INCONCLUSIVE: nats connect: %v", err)
	}
	defer nc.Close()
	conn, err := grpc.Dial(fmt.Sprintf("127.0.0.1:%d", srv.GetListenPort()), grpc.WithInsecure())
	if err != nil {
		t.Fatalf("INCONCLUSIVE: dial: %v", err)
	}
	defer conn.Close()
	api := client.NewAPIClient(conn)
	ownCid, err := nc.GetClientID()
	if err != nil {
		t.Fatalf("INCONCLUSIVE: client id: %v", err)
	}
	replies, err := nc.SubscribeSync("c14reply.>")
	if err != nil {
		t.Fatalf("INCONCLUSIVE: reply subscription: %v", err)
	}
	// what came back on reply subject `on` so far (a late answer is simply not there: recorded as "none")
	replyOn := func(h, on string) string {
		for {
			m, err := replies.NextMsg(3 * time.Millisecond)
			if err != nil {
				return "none"
			}
			if m.Subject == on {
				return vC14ReplyClass(h, m.Data)
			}
		}
	}
	alive := func() {
		probe, _ := proto.MarshalServerInfoRequest(&proto.ServerInfoRequest{Id: "c14-probe"})
		if _, err := nc.Request(srv.getServerInfoInbox(), probe, vC14Deadline); err != nil {
			t.Fatalf("INCONCLUSIVE: server does not answer the liveness probe: %v", err)
		}
	}
	inventoried := false

	for _, b := range sf.Behaviours {
		seed := vIntDef(b.Cfg, "seed", 1)
		stream := fmt.Sprintf("c14-%d", b.ID)
		creq := &client.CreateStreamRequest{Name: stream, Subject: stream}
		nparts := int(vIntDef(b.Cfg, "parts", 1))
		creq.Partitions = int32(nparts)
		if vBool(b.Cfg, "occ") {
			creq.OptimisticConcurrencyControl = &client.NullableBool{Value: true}
		}
		if _, err := srv.api.CreateStream(context.Background(), creq); err != nil {
			t.Fatalf("INCONCLUSIVE: create stream: %v", err)
		}
		var part *partition
		deadline := time.Now().Add(vC14Deadline)
		for {
			ready := 0
			for j := nparts - 1; j >= 0; j-- {
				part = srv.metadata.GetPartition(stream, int32(j))
				if part != nil {
					if l, _ := part.GetLeader(); l == "a" && part.IsLeader() {
						ready++
					}
				}
			}
			if ready == nparts {
				break
			}
			if time.Now().After(deadline) {
				t.Fatalf("INCONCLUSIVE: partition did not start")
			}
			time.Sleep(time.Millisecond)
		}
		emitted = 0
		emit(map[string]interface{}{"a": "Open", "t": b.ID, "st": map[string]interface{}{"up": true, "stored": []vC14Entry{}},
			"obs": map[string]interface{}{"a": "Open"}})
		if !inventoried {
			inventoried = true
			subs, raw, err := vC14LiveSubjects(srv, ownCid, stream)
			if err != nil {
				t.Fatalf("INCONCLUSIVE: subscription list: %v", err)
			}
			emit(map[string]interface{}{"a": "Inventory", "t": b.ID, "subs": subs, "raw": raw, "sites": []string{}})
		}
		pubs := []vC14Pub{}
		var (
			async       client.API_PublishAsyncClient
			asyncInbox  string
			asyncCancel context.CancelFunc
			asyncResp   chan *client.PublishResponse
		)
		for sn, step := range b.Steps {
			switch vStr(step, "a") {
			case "Burst":
				// several NATS messages arrive back to back (nothing waits for the previous one to be stored)
				items := vList(step, "pubs")
				base := len(pubs)
				argsOf := []map[string]interface{}{}
				for _, it := range items {
					c, args := vC14BuildPublish(it, seed)
					pubs = append(pubs, vC14Pub{id: int(vInt(it, "id")), c: c})
					argsOf = append(argsOf, args)
				}
				intent(map[string]interface{}{"t": b.ID, "step": sn, "a": "PublishRaw", "args": argsOf[0], "burst": len(items)})
				for j := range items {
					if err := nc.Publish(stream, pubs[base+j].c.data); err != nil {
						t.Fatalf("INCONCLUSIVE: nats publish: %v", err)
					}
				}
				nc.Flush()
				deadline := time.Now().Add(vC14Deadline)
				for part.log.NewestOffset() < int64(len(pubs))-1 {
					if time.Now().After(deadline) {
						t.Fatalf("INCONCLUSIVE: a burst of %d messages was not stored within %v (stored %d, server running: %v)",
							len(items), vC14Deadline, part.log.NewestOffset()+1-int64(base), srv.IsRunning())
					}
					time.Sleep(200 * time.Microsecond)
				}
				msgs, err := vC14ReadLog(part)
				if err != nil {
					t.Fatalf("INCONCLUSIVE: read log: %v", err)
				}
				for j := range items {
					n := base + j + 1
					if n > len(msgs) {
						n = len(msgs)
					}
					stored, same := vC14Project(msgs[:n], pubs[:base+j+1], stream)
					k2 := "none"
					if len(stored) > 0 {
						k2 = stored[len(stored)-1].K
					}
					emit(map[string]interface{}{"a": "PublishRaw", "t": b.ID, "args": argsOf[j],
						"st":  map[string]interface{}{"up": srv.IsRunning(), "stored": stored},
						"obs": map[string]interface{}{"a": "PublishRaw", "k": k2, "same": same}})
				}
			case "PublishRaw":
				c, args := vC14BuildPublish(step, seed)
				id := int(vInt(step, "id"))
				pubs = append(pubs, vC14Pub{id: id, c: c})
				intent(map[string]interface{}{"t": b.ID, "step": sn, "a": "PublishRaw", "args": args, "hex": fmt.Sprintf("%.128x", c.data)})
				if err := nc.Publish(stream, c.data); err != nil {
					t.Fatalf("INCONCLUSIVE: nats publish: %v", err)
				}
				nc.Flush()
				deadline := time.Now().Add(vC14Deadline)
				for part.log.NewestOffset() < int64(len(pubs))-1 {
					if time.Now().After(deadline) {
						t.Fatalf("INCONCLUSIVE: published bytes %x were not stored within %v (server running: %v)",
							c.data, vC14Deadline, srv.IsRunning())
					}
					time.Sleep(200 * time.Microsecond)
				}
				msgs, err := vC14ReadLog(part)
				if err != nil {
					t.Fatalf("INCONCLUSIVE: read log: %v", err)
				}
				stored, same := vC14Project(msgs, pubs, stream)
				k2 := "none"
				if len(stored) > 0 {
					k2 = stored[len(stored)-1].K
				}
				emit(map[string]interface{}{"a": "PublishRaw", "t": b.ID, "args": args,
					"st":  map[string]interface{}{"up": srv.IsRunning(), "stored": stored},
					"obs": map[string]interface{}{"a": "PublishRaw", "k": k2, "same": same}})
			case "Internal":
				im := step["i"].(map[string]interface{})
				k := vC14Key{Len: int(vInt(im, "len")), MagicOK: vBool(im, "magicOK"), VerOK: vBool(im, "verOK"),
					CrcFlag: vBool(im, "crcFlag"), OtherFlags: vBool(im, "otherFlags"), TypeOK: vBool(im, "typeOK"),
					CrcOK: vBool(im, "crcOK")}
				hl, pbOK, h, shape := int(vInt(im, "hl")), vBool(step, "pbOK"), vStr(step, "h"), int(vInt(step, "shape"))
				subject, typ, tmpl := vC14Internal(srv, part, stream, h, shape)
				c := vC14ConcretiseTyped(k, hl, pbOK, "plain", vC14Rng(seed, k, hl, pbOK, 1000+sn), typ, tmpl)
				if num := vC14NumericShapes("c14x-" + stream); h == "propagate" && pbOK && shape >= 137 {
					data, err := proto.MarshalPropagatedRequest(num[(shape-137)%len(num)])
					if err != nil {
						t.Fatalf("INCONCLUSIVE: %v", err)
					}
					c = vC14Concrete{data: data}
					im = map[string]interface{}{"len": len(data), "magicOK": true, "verOK": true, "hl": 8, "crcFlag": false,
						"otherFlags": false, "typeOK": true, "crcOK": true}
				}
				args := map[string]interface{}{"i": im, "pbOK": pbOK, "h": h, "shape": shape}
				intent(map[string]interface{}{"t": b.ID, "step": sn, "a": "Internal", "args": args, "hex": fmt.Sprintf("%x", c.data),
					"subject": subject})
				if err := nc.Publish(subject, c.data); err != nil {
					t.Fatalf("INCONCLUSIVE: nats publish: %v", err)
				}
				nc.Flush()
				// let the handler run, then make sure the process still answers on NATS
				time.Sleep(5 * time.Millisecond)
				probe, _ := proto.MarshalServerInfoRequest(&proto.ServerInfoRequest{Id: "c14-probe"})
				if _, err := nc.Request(srv.getServerInfoInbox(), probe, vC14Deadline); err != nil {
					t.Fatalf("INCONCLUSIVE: server does not answer the liveness probe: %v", err)
				}
				msgs, err := vC14ReadLog(part)
				if err != nil {
					t.Fatalf("INCONCLUSIVE: read log: %v", err)
				}
				stored, _ := vC14Project(msgs, pubs, stream)
				emit(map[string]interface{}{"a": "Internal", "t": b.ID, "args": args,
					"st":  map[string]interface{}{"up": srv.IsRunning(), "stored": stored},
					"obs": map[string]interface{}{"a": "Internal", "k": "sent", "same": true}})
			case "Subject":
				im := step["i"].(map[string]interface{})
				k := vC14Key{Len: int(vInt(im, "len")), MagicOK: vBool(im, "magicOK"), VerOK: vBool(im, "verOK"),
					CrcFlag: vBool(im, "crcFlag"), OtherFlags: vBool(im, "otherFlags"), TypeOK: vBool(im, "typeOK"),
					CrcOK: vBool(im, "crcOK")}
				hl, pbOK, h := int(vInt(im, "hl")), vBool(step, "pbOK"), vStr(step, "h")
				ent := step["ent"].(map[string]interface{})
				tag := fmt.Sprintf("c14-%d-%d", b.ID, sn)
				subject, typ, tmpl, err := vC14SubjectRequest(srv, part, stream, h, ent, tag)
				if err != nil {
					t.Fatalf("INCONCLUSIVE: %v", err)
				}
				if pbOK && k.Len > 8 && tmpl != nil {
					// the abstract length "a payload is present" becomes the real length of the request built
					pos := 8
					if hl >= 8 && hl <= 64 {
						pos = hl
					}
					k.Len = pos + len(tmpl)
				}
				c := vC14ConcretiseTyped(k, hl, pbOK, "plain", vC14Rng(seed, k, hl, pbOK, 3000+sn), typ, tmpl)
				im2 := map[string]interface{}{}
				for kk, vv := range im {
					im2[kk] = vv
				}
				im2["len"] = k.Len
				args := map[string]interface{}{"i": im2, "pbOK": pbOK, "h": h, "ent": ent}
				reply := "none"
				switch h {
				case "ack":
					// the server as requester: a Publish call to a subject nobody serves waits on an ack inbox
					// the client chose; the bytes arrive there instead of an ack
					subject = fmt.Sprintf("c14ack.%d.%d", b.ID, sn)
					type res struct {
						r   *client.PublishToSubjectResponse
						err error
					}
					done := make(chan res, 1)
					ctx, cancel := context.WithTimeout(context.Background(), vC14Deadline)
					go func() {
						r, err := api.PublishToSubject(ctx, &client.PublishToSubjectRequest{Subject: fmt.Sprintf("c14void.%d.%d", b.ID, sn),
							Value: []byte("x"), AckInbox: subject, AckPolicy: client.AckPolicy_LEADER})
						done <- res{r, err}
					}()
					deadline := time.Now().Add(vC14Deadline)
					for {
						sz, err := srv.embeddedNATS.Subsz(&gnatsd.SubszOptions{Subscriptions: true, Test: subject, Limit: 100000})
						if err == nil && len(sz.Subs) > 0 {
							break
						}
						if time.Now().After(deadline) {
							cancel()
							t.Fatalf("INCONCLUSIVE: the publish call did not subscribe to its ack inbox")
						}
						time.Sleep(500 * time.Microsecond)
					}
					intent(map[string]interface{}{"t": b.ID, "step": sn, "a": "Subject", "args": args, "hex": fmt.Sprintf("%x", c.data), "subject": subject})
					if err := nc.Publish(subject, c.data); err != nil {
						t.Fatalf("INCONCLUSIVE: nats publish: %v", err)
					}
					nc.Flush()
					r := <-done
					expired := ctx.Err() != nil
					cancel()
					switch {
					case r.err == nil && r.r != nil && r.r.Ack != nil:
						reply = "ack"
					case r.err != nil && !expired:
						reply = "error"
					}
					alive()
				case "ackasync":
					if async == nil {
						ctx, cancel := context.WithCancel(context.Background())
						st, err := api.PublishAsync(ctx)
						if err != nil {
							cancel()
							t.Fatalf("INCONCLUSIVE: publish async: %v", err)
						}
						async, asyncCancel = st, cancel
						asyncResp = make(chan *client.PublishResponse, 1024)
						go func(st client.API_PublishAsyncClient, ch chan *client.PublishResponse) {
							for {
								m, err := st.Recv()
								if err != nil {
									return
								}
								ch <- m
							}
						}(st, asyncResp)
						deadline := time.Now().Add(vC14Deadline)
						for asyncInbox == "" {
							_, raw, _ := vC14LiveSubjects(srv, ownCid, stream)
							for _, r := range raw {
								if strings.HasPrefix(r, srv.config.Clustering.Namespace+".ack.") {
									asyncInbox = r
								}
							}
							if asyncInbox == "" {
								if time.Now().After(deadline) {
									t.Fatalf("INCONCLUSIVE: the async publish session did not subscribe to an ack inbox")
								}
								time.Sleep(500 * time.Microsecond)
							}
						}
					}
					subject = asyncInbox
					for len(asyncResp) > 0 { // answers that came too late for their own step
						<-asyncResp
					}
					intent(map[string]interface{}{"t": b.ID, "step": sn, "a": "Subject", "args": args, "hex": fmt.Sprintf("%x", c.data), "subject": subject})
					if err := nc.Publish(subject, c.data); err != nil {
						t.Fatalf("INCONCLUSIVE: nats publish: %v", err)
					}
					nc.Flush()
					time.Sleep(5 * time.Millisecond)
					alive()
					for waiting := true; waiting; {
						select {
						case m := <-asyncResp:
							if m.CorrelationId != tag {
								continue // the late answer of an earlier step
							}
							if m.AsyncError != nil {
								reply = "error"
							} else if m.Ack != nil {
								reply = "ack"
							}
							waiting = false
						case <-time.After(3 * time.Millisecond):
							waiting = false
						}
					}
				default:
					on := fmt.Sprintf("c14reply.%d.%d", b.ID, sn)
					intent(map[string]interface{}{"t": b.ID, "step": sn, "a": "Subject", "args": args, "hex": fmt.Sprintf("%x", c.data), "subject": subject})
					if err := nc.PublishRequest(subject, on, c.data); err != nil {
						t.Fatalf("INCONCLUSIVE: nats publish: %v", err)
					}
					nc.Flush()
					// let the handler run, then make sure the process still answers on NATS
					time.Sleep(5 * time.Millisecond)
					alive()
					reply = replyOn(h, on)
				}
				msgs, err := vC14ReadLog(part)
				if err != nil {
					t.Fatalf("INCONCLUSIVE: read log: %v", err)
				}
				stored, _ := vC14Project(msgs, pubs, stream)
				emit(map[string]interface{}{"a": "Subject", "t": b.ID, "args": args, "subject": subject,
					"st":  map[string]interface{}{"up": srv.IsRunning(), "stored": stored},
					"obs": map[string]interface{}{"a": "Subject", "k": "sent", "same": true, "reply": reply}})
			case "ReadBack":
				// a consumer subscribes from the start: it must receive what the log holds
				intent(map[string]interface{}{"t": b.ID, "step": sn, "a": "ReadBack", "args": map[string]interface{}{}})
				ctx, cancel := context.WithTimeout(context.Background(), vC14Deadline)
				got := []vC14Fields{}
				kind := "ok"
				sub, err := api.Subscribe(ctx, &client.SubscribeRequest{Stream: stream, StartPosition: client.StartPosition_EARLIEST})
				if err != nil {
					cancel()
					t.Fatalf("INCONCLUSIVE: subscribe: %v", err)
				}
				if _, err := sub.Recv(); err != nil { // first (empty) message = subscribed
					kind = "suberr:" + err.Error()
				}
				for kind == "ok" && len(got) < len(pubs) {
					m, err := sub.Recv()
					if err != nil {
						if ctx.Err() != nil {
							cancel()
							t.Fatalf("INCONCLUSIVE: subscriber got %d of %d messages within %v", len(got), len(pubs), vC14Deadline)
						}
						kind = "recverr"
						break
					}
					got = append(got, vC14FromClient(m))
				}
				cancel()
				delivered, same := vC14Project(got, pubs, stream)
				msgs, _ := vC14ReadLog(part)
				stored, _ := vC14Project(msgs, pubs, stream)
				emit(map[string]interface{}{"a": "ReadBack", "t": b.ID, "args": map[string]interface{}{},
					"st":  map[string]interface{}{"up": srv.IsRunning(), "stored": stored},
					"obs": map[string]interface{}{"a": "ReadBack", "k": kind, "same": same, "got": delivered}})
			}
		}
		if async != nil {
			async.CloseSend()
			asyncCancel()
		}
		if _, err := srv.api.DeleteStream(context.Background(), &client.DeleteStreamRequest{Name: stream}); err != nil {
			t.Logf("delete stream: %v", err)
		}
	}
}
