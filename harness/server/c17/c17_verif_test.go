//go:build verif

package server

// C17 pipeline level: behaviours of spec/Encryption.tla (publish in batches,
// subscribers, pause/resume, restart, change of the master key variable,
// tampering on disk) executed on a running one-node server with one encrypted
// and one plain stream.  After every step the raw partition logs are read back
// and decoded INDEPENDENTLY of the server's handler (documented layout, the
// harness knows both master keys).  The harness records; TLC judges.

import (
	"bytes"
	"context"
	"crypto/aes"
	"crypto/cipher"
	"encoding/binary"
	"encoding/json"
	"fmt"
	"hash/crc32"
	"io"
	"math/rand"
	"os"
	"path/filepath"
	"runtime"
	"sort"
	"strconv"
	"strings"
	"sync"
	"testing"
	"time"

	"github.com/google/tink/go/kwp/subtle"
	"github.com/hashicorp/raft"
	client "github.com/liftbridge-io/liftbridge-api/v2/go"
	"github.com/nats-io/nats.go"
	"google.golang.org/grpc/codes"

	"github.com/liftbridge-io/liftbridge/server/encryption"
	proto "github.com/liftbridge-io/liftbridge/server/protocol"
)

const (
	vC17Deadline = 20 * time.Second
	vC17KeyVar   = "LIFTBRIDGE_ENCRYPTION_KEY"
)

var vC17Keys = map[string][]byte{
	"k1":  []byte("t7w!z%C*F-JaNcRf"),
	"k2":  []byte("Zr4u7x!A%D*G-KaPdSgVkYp3s6v9y/B?"), // the other length on purpose
	"bad": []byte("fifteen-bytes..."[:15]),
}

type vC17Fatal struct{ msg string }

func vC17Fail(format string, a ...interface{}) {
	panic(vC17Fatal{"INCONCLUSIVE: " + fmt.Sprintf(format, a...)})
}

func vC17Wait(what string, cond func() bool) {
	deadline := time.Now().Add(vC17Deadline)
	for !cond() {
		if time.Now().After(deadline) {
			vC17Fail("timeout waiting for %s", what)
		}
		time.Sleep(500 * time.Microsecond)
	}
}

func vC17SetEnv(k string) {
	if err := os.Setenv(vC17KeyVar, string(vC17Keys[k])); err != nil {
		vC17Fail("setenv: %v", err)
	}
}

// ---- independent decoding of a stored value -------------------------------------

// vC17Open returns the plaintext when `stored` has the documented layout under `master`
func vC17Open(stored, master []byte) ([]byte, bool) {
	if len(stored) < 1 {
		return nil, false
	}
	ks := int(stored[0])
	if 1+ks > len(stored) {
		return nil, false
	}
	kw, err := subtle.NewKWP(master)
	if err != nil {
		return nil, false
	}
	dek, err := kw.Unwrap(stored[1 : 1+ks])
	if err != nil {
		return nil, false
	}
	blk, err := aes.NewCipher(dek)
	if err != nil {
		return nil, false
	}
	gcm, _ := cipher.NewGCM(blk)
	body := stored[1+ks:]
	if len(body) < 12+16 {
		return nil, false
	}
	pt, err := gcm.Open(nil, body[:12], body[12:], nil)
	if err != nil {
		return nil, false
	}
	if pt == nil {
		pt = []byte{}
	}
	return pt, true
}

// ---- recording / failing wrapper around the partition's real handler --------------

type vC17Codec struct {
	inner encryption.Codec
	sh    *vC17Shared
}

// what the wrappers installed on the replicas of one behaviour share
type vC17Shared struct {
	mu     sync.Mutex
	fail   map[string]bool // values whose Seal fails (injected)
	sites  []string        // Seal call sites since the last reset
	seals  int
	failed map[string]bool // values whose Seal was refused (the injected failure was delivered)
}

var vC17SealLines []int
var vC17SealLinesOnce sync.Once

// the three Seal call sites of messageProcessingLoop are told apart by the source line of the caller
func vC17FindSealLines(file string) {
	vC17SealLinesOnce.Do(func() {
		src, err := os.ReadFile(file)
		if err != nil {
			return
		}
		for i, ln := range strings.Split(string(src), "\n") {
			if strings.Contains(ln, "encryptionHandler.Seal(") {
				vC17SealLines = append(vC17SealLines, i+1)
			}
		}
	})
}

func (w *vC17Codec) Seal(v []byte) ([]byte, error) {
	c := w.sh
	site := "?"
	if _, file, line, ok := runtime.Caller(1); ok {
		vC17FindSealLines(file)
		for i, l := range vC17SealLines {
			if l == line {
				site = string(rune('A' + i))
			}
		}
	}
	c.mu.Lock()
	c.sites = append(c.sites, site)
	c.seals++
	failing := c.fail[string(v)]
	if failing {
		if c.failed == nil {
			c.failed = map[string]bool{}
		}
		c.failed[string(v)] = true
	}
	c.mu.Unlock()
	if failing {
		return nil, fmt.Errorf("injected seal failure")
	}
	return w.inner.Seal(v)
}

func (w *vC17Codec) Read(v []byte) ([]byte, error) { return w.inner.Read(v) }

func (c *vC17Shared) count() int {
	c.mu.Lock()
	defer c.mu.Unlock()
	return c.seals
}

// ---- the run ---------------------------------------------------------------------

type vC17Val struct {
	ID  int    `json:"id"`
	Cls string `json:"cls"`
}

type vC17Entry struct {
	V     int    `json:"v"`
	K     string `json:"k"`
	Clear bool   `json:"clear"`
}

type vC17State struct {
	Up     bool                              `json:"up"`
	Env    string                            `json:"env"`
	Lead   map[string]string                 `json:"lead"`
	HK     map[string]map[string]string      `json:"hk"`  // replica -> stream -> key
	Paused map[string]bool                   `json:"paused"`
	Log    map[string]map[string][]vC17Entry `json:"log"` // replica -> stream -> entries
	MEnc   map[string]map[string]bool        `json:"menc"` // replica -> stream -> that server's metadata says "encrypted"
	Snap   map[string]map[string]string      `json:"snap"` // replica -> stream -> latest persisted snapshot: none / on / off
}

type vC17Run struct {
	t       *testing.T
	cfg     *Config            // configuration of the first server
	srvs    map[string]*Server // replica id -> server
	cfgs    map[string]*Config
	reps    []string
	nc      *nats.Conn
	bid     int
	seed    int64
	wrap    bool
	env     string
	streams map[string]string // "enc"/"plain" -> stream name
	vals    map[int][]byte    // published value bytes by id
	order   []int
	pub     map[string][]int // ids published to each stream, in order
	wrapper *vC17Shared
	lastLog map[string][]vC17Entry // key: replica/stream
	raw     map[string][][]byte    // key: replica/stream
	ackSub  *nats.Subscription
	ackCh   chan *nats.Msg
}

func (r *vC17Run) partAt(rep, s string) *partition {
	return r.srvs[rep].metadata.GetPartition(r.streams[s], 0)
}

// leaderOf: the replica that leads the partition of stream s (as the first server's metadata has it)
func (r *vC17Run) leaderOf(s string) string {
	p := r.partAt(r.reps[0], s)
	if p == nil {
		vC17Fail("partition of %s is gone", s)
	}
	l, _ := p.GetLeader()
	if _, ok := r.srvs[l]; !ok {
		vC17Fail("partition of %s is led by %q", s, l)
	}
	return l
}

// replica resolves "L" (the replica leading stream s now) / "F" (the other one) / a replica id
func (r *vC17Run) replica(name, s string) string {
	l := r.leaderOf(s)
	switch name {
	case "L":
		return l
	case "F":
		for _, rep := range r.reps {
			if rep != l {
				return rep
			}
		}
		return l
	}
	return name
}

// part: the leader's partition object
func (r *vC17Run) part(s string) *partition { return r.partAt(r.leaderOf(s), s) }

// srv: a server to send requests to (the leader of the encrypted stream)
func (r *vC17Run) srv() *Server { return r.srvs[r.leaderOf("enc")] }

func (r *vC17Run) allUp() bool {
	for _, srv := range r.srvs {
		if !srv.IsRunning() {
			return false
		}
	}
	return true
}

func (r *vC17Run) value(v vC17Val) []byte {
	if b, ok := r.vals[v.ID]; ok {
		return b
	}
	rng := rand.New(rand.NewSource(r.seed*7919 + int64(r.bid)*104729 + int64(v.ID)))
	var n int
	switch v.Cls {
	case "empty":
		n = 0
	case "short":
		n = 1 + rng.Intn(15)
	default:
		n = []int{16, 17, 32, 100, 1000, 5000, 70000}[rng.Intn(7)]
	}
	b := make([]byte, n)
	switch rng.Intn(4) {
	case 0: // text
		const txt = "liftbridge plaintext that must not be found on disk. "
		for i := range b {
			b[i] = txt[(i+v.ID)%len(txt)]
		}
	case 1: // runs of 0x00 / 0xff
		rng.Read(b)
		for i := range b {
			if (i/5)%3 == 0 {
				b[i] = 0
			} else if (i/5)%3 == 1 {
				b[i] = 0xff
			}
		}
	default:
		rng.Read(b)
	}
	// values of one behaviour are told apart by their bytes
	if n >= 4 {
		copy(b, []byte(fmt.Sprintf("%03d:", v.ID%1000)))
	} else if n >= 1 {
		b[0] = byte(v.ID)
	}
	r.vals[v.ID] = b
	r.order = append(r.order, v.ID)
	return b
}

// idOf: the published value these bytes are (prefer `hint`)
func (r *vC17Run) idOf(b []byte, hint int) int {
	if hv, ok := r.vals[hint]; ok && bytes.Equal(hv, b) {
		return hint
	}
	for _, id := range r.order {
		if bytes.Equal(r.vals[id], b) {
			return id
		}
	}
	return 0
}

// idIn: the value published to stream s that these bytes are: the first one, in publish
// order, that no earlier log entry was identified with (values may have equal bytes)
func (r *vC17Run) idIn(s string, b []byte, used map[int]bool) int {
	for _, id := range r.pub[s] {
		if !used[id] && bytes.Equal(r.vals[id], b) {
			used[id] = true
			return id
		}
	}
	return r.idOf(b, 0)
}

func (r *vC17Run) readRaw(rep, s string) [][]byte {
	p := r.partAt(rep, s)
	newest := p.log.NewestOffset()
	out := [][]byte{}
	if newest < 0 {
		return out
	}
	rd, err := p.log.NewReader(p.log.OldestOffset(), true)
	if err != nil {
		vC17Fail("raw reader: %v", err)
	}
	ctx, cancel := context.WithTimeout(context.Background(), vC17Deadline)
	defer cancel()
	hb := make([]byte, 28)
	for {
		m, off, _, _, err := rd.ReadMessage(ctx, hb)
		if err != nil {
			vC17Fail("raw read: %v", err)
		}
		out = append(out, append([]byte{}, m.Value()...))
		if off >= newest {
			return out
		}
	}
}

func (r *vC17Run) project(rep, s string) []vC17Entry {
	p := r.partAt(rep, s)
	if p == nil {
		vC17Fail("partition of %s on %s is gone", s, rep)
	}
	if p.IsPaused() {
		if r.lastLog[rep+"/"+s] == nil {
			return []vC17Entry{}
		}
		return r.lastLog[rep+"/"+s] // a paused partition's log is closed: last known contents
	}
	raws := r.readRaw(rep, s)
	r.raw[rep+"/"+s] = raws
	out := []vC17Entry{}
	used := map[int]bool{}
	for _, raw := range raws {
		e := vC17Entry{K: "none"}
		for _, k := range []string{"k1", "k2"} {
			if pt, ok := vC17Open(raw, vC17Keys[k]); ok {
				e.K, e.V = k, r.idIn(s, pt, used)
				break
			}
		}
		if e.K == "none" {
			if id := r.idIn(s, raw, used); id != 0 {
				e.K, e.V = "plain", id
			}
		}
		for _, id := range r.order {
			x := r.vals[id]
			if (len(x) >= 16 && bytes.Contains(raw, x)) || (len(x) >= 1 && bytes.Equal(raw, x)) {
				e.Clear = true
			}
		}
		out = append(out, e)
	}
	r.lastLog[rep+"/"+s] = out
	return out
}

// the master key a handler holds, found by letting it seal a probe value
func (r *vC17Run) handlerKey(p *partition) string {
	h := p.encryptionHandler
	if h == nil {
		return "none"
	}
	if w, ok := h.(*vC17Codec); ok {
		h = w.inner
	}
	probe := []byte("c17 handler key probe")
	s, err := h.Seal(probe)
	if err != nil {
		return "sealerr"
	}
	for _, k := range []string{"k1", "k2"} {
		if pt, ok := vC17Open(s, vC17Keys[k]); ok && bytes.Equal(pt, probe) {
			return k
		}
	}
	return "unknown"
}

// encOf: does a partition built by server rep from this stream configuration encrypt (the server default
// overridden by the stream's own setting, computed by the real ApplyOverrides)
func (r *vC17Run) encOf(rep string, c *proto.StreamConfig) bool {
	sc := &StreamsConfig{Encryption: r.srvs[rep].config.Streams.Encryption}
	sc.ApplyOverrides(c)
	return sc.Encryption
}

// metaEnc: what the LIVE metadata of server rep says about stream s
func (r *vC17Run) metaEnc(rep, s string) bool {
	st := r.srvs[rep].metadata.GetStream(r.streams[s])
	if st == nil {
		vC17Fail("stream of %s is gone from the metadata of %s", s, rep)
	}
	return r.encOf(rep, st.GetConfig())
}

// latestSnapshot reads the newest snapshot in the Raft snapshot store of server rep (nil: there is none)
func (r *vC17Run) latestSnapshot(rep string) *proto.MetadataSnapshot {
	store, err := raft.NewFileSnapshotStore(filepath.Join(r.cfgs[rep].DataDir, "raft"), 2, io.Discard)
	if err != nil {
		vC17Fail("snapshot store of %s: %v", rep, err)
	}
	metas, err := store.List()
	if err != nil {
		vC17Fail("snapshot list of %s: %v", rep, err)
	}
	if len(metas) == 0 {
		return nil
	}
	_, rc, err := store.Open(metas[0].ID)
	if err != nil {
		vC17Fail("snapshot open: %v", err)
	}
	defer rc.Close()
	b, err := io.ReadAll(rc)
	if err != nil || len(b) < 4 || int(binary.BigEndian.Uint32(b[:4])) != len(b)-4 {
		vC17Fail("snapshot of %s is not size + data (%d bytes, %v)", rep, len(b), err)
	}
	snap := &proto.MetadataSnapshot{}
	if err := snap.Unmarshal(b[4:]); err != nil {
		vC17Fail("snapshot of %s: %v", rep, err)
	}
	return snap
}

// snapEnc: what the newest persisted snapshot of server rep says about stream s
func (r *vC17Run) snapEnc(rep, s string, snap *proto.MetadataSnapshot) string {
	if snap == nil {
		return "none"
	}
	for _, st := range snap.Streams {
		if st.Name == r.streams[s] {
			if r.encOf(rep, st.Config) {
				return "on"
			}
			return "off"
		}
	}
	return "none"
}

// takeSnapshot makes the Raft node of server rep persist a snapshot of its state machine now
func (r *vC17Run) takeSnapshot(rep string) string {
	err := r.srvs[rep].getRaft().Snapshot().Error()
	if err == raft.ErrNothingNewToSnapshot {
		return "nothing new"
	}
	if err != nil {
		vC17Fail("snapshot on %s: %v", rep, err)
	}
	return "taken"
}

// installSnapshot: server rep, running, takes a snapshot and is handed the newest snapshot of its
// store back (real Server.Restore on the running server, as Raft does when it installs a snapshot)
func (r *vC17Run) installSnapshot(rep string) string {
	what := r.takeSnapshot(rep)
	store, err := raft.NewFileSnapshotStore(filepath.Join(r.cfgs[rep].DataDir, "raft"), 2, io.Discard)
	if err != nil {
		vC17Fail("snapshot store of %s: %v", rep, err)
	}
	metas, err := store.List()
	if err != nil || len(metas) == 0 {
		vC17Fail("no snapshot to install on %s: %v", rep, err)
	}
	_, rc, err := store.Open(metas[0].ID)
	if err != nil {
		vC17Fail("snapshot open: %v", err)
	}
	if err := r.srvs[rep].Restore(rc); err != nil {
		return what + ", restore: " + err.Error()
	}
	return what + ", installed"
}

func (r *vC17Run) state() vC17State {
	st := vC17State{Up: r.allUp(), Env: r.env, Lead: map[string]string{}, HK: map[string]map[string]string{},
		Paused: map[string]bool{}, Log: map[string]map[string][]vC17Entry{},
		MEnc: map[string]map[string]bool{}, Snap: map[string]map[string]string{}}
	for _, s := range []string{"enc", "plain"} {
		st.Lead[s] = r.leaderOf(s)
		st.Paused[s] = r.part(s).IsPaused()
	}
	for _, rep := range r.reps {
		st.HK[rep], st.Log[rep] = map[string]string{}, map[string][]vC17Entry{}
		st.MEnc[rep], st.Snap[rep] = map[string]bool{}, map[string]string{}
		snap := r.latestSnapshot(rep)
		for _, s := range []string{"enc", "plain"} {
			st.HK[rep][s] = r.handlerKey(r.partAt(rep, s))
			st.Log[rep][s] = r.project(rep, s)
			st.MEnc[rep][s] = r.metaEnc(rep, s)
			st.Snap[rep][s] = r.snapEnc(rep, s, snap)
		}
	}
	return st
}

// settle: every replica holds what the leader holds and knows it is committed
func (r *vC17Run) settle(s string) {
	lp := r.part(s)
	if lp.IsPaused() {
		return
	}
	vC17Wait("replicas of "+s+" in sync", func() bool {
		for _, rep := range r.reps {
			p := r.partAt(rep, s)
			if p == nil || p.IsPaused() {
				return false
			}
			if p.log.NewestOffset() != lp.log.NewestOffset() || p.log.HighWatermark() != lp.log.NewestOffset() {
				return false
			}
		}
		return true
	})
}

// waitLeader: every replica has the partition, agrees on the leader, the leader leads and the others follow
func (r *vC17Run) waitLeader(s string) {
	vC17Wait("partition of "+s+" started on every replica", func() bool {
		leader := ""
		for _, rep := range r.reps {
			p := r.partAt(rep, s)
			if p == nil {
				return false
			}
			l, _ := p.GetLeader()
			if leader == "" {
				leader = l
			}
			if l != leader {
				return false
			}
		}
		if _, ok := r.srvs[leader]; !ok {
			return false
		}
		for _, rep := range r.reps {
			p := r.partAt(rep, s)
			if p.IsPaused() {
				continue
			}
			p.mu.RLock()
			leading, following := p.isLeading, p.isFollowing
			p.mu.RUnlock()
			if (rep == leader && !leading) || (rep != leader && !following) {
				return false
			}
		}
		return true
	})
}

// install puts the recording wrapper around the real handler of every replica's encrypted partition
func (r *vC17Run) install() {
	r.waitLeader("enc")
	r.waitLeader("plain")
	if !r.wrap {
		return
	}
	for _, rep := range r.reps {
		p := r.partAt(rep, "enc")
		if p.encryptionHandler == nil {
			continue
		}
		if _, ok := p.encryptionHandler.(*vC17Codec); ok {
			continue
		}
		if r.wrapper == nil {
			r.wrapper = &vC17Shared{fail: map[string]bool{}}
		}
		p.mu.Lock()
		p.encryptionHandler = &vC17Codec{inner: p.encryptionHandler, sh: r.wrapper}
		p.mu.Unlock()
	}
}

func (r *vC17Run) connect() {
	nc, err := nats.Connect(r.cfg.NATS.Servers[0])
	if err != nil {
		vC17Fail("nats connect: %v", err)
	}
	r.nc = nc
	r.ackCh = make(chan *nats.Msg, 1024)
	sub, err := nc.ChanSubscribe(fmt.Sprintf("c17ack.%d.*", r.bid), r.ackCh)
	if err != nil {
		vC17Fail("ack subscribe: %v", err)
	}
	r.ackSub = sub
	nc.Flush()
}

func (r *vC17Run) disconnect() {
	if r.nc != nil {
		r.nc.Close()
		r.nc = nil
	}
}

func vC17AckKind(a *client.Ack) string {
	if a.AckError == client.Ack_OK {
		return "ack"
	}
	return "nack"
}

// publish executes one Publish step; returns acks and the Seal sites used
func (r *vC17Run) publish(s string, vals []vC17Val, fails []int, how string) ([]string, []string, []string) {
	p := r.part(s)
	stream := r.streams[s]
	data := make([][]byte, len(vals))
	for i, v := range vals {
		data[i] = r.value(v)
		r.pub[s] = append(r.pub[s], v.ID)
	}
	if r.wrapper != nil {
		r.wrapper.mu.Lock()
		r.wrapper.fail = map[string]bool{}
		for _, i := range fails {
			r.wrapper.fail[string(data[i-1])] = true
		}
		r.wrapper.sites = nil
		r.wrapper.mu.Unlock()
	}
	// (without a handler to wrap - the partition does not encrypt - no failure can be injected:
	// the step is executed as it is and recorded)
	acks := make([]string, len(vals))
	codes := make([]string, len(vals))
	// a replicated stream: acknowledged once every in-sync replica has the message
	policy := client.AckPolicy_LEADER
	if len(r.reps) > 1 {
		policy = client.AckPolicy_ALL
	}
	ackSrv := r.srvs[r.leaderOf(s)]
	if how == "api" {
		ctx, cancel := context.WithTimeout(context.Background(), vC17Deadline)
		resp, err := r.srv().api.Publish(ctx, &client.PublishRequest{Stream: stream, Value: data[0], AckPolicy: policy})
		timedOut := ctx.Err() != nil
		cancel()
		switch {
		case err == nil && resp.Ack != nil:
			acks[0] = "ack"
		case err != nil && timedOut:
			vC17Fail("publish timed out: %v", err)
		case err != nil: // the publisher is told that the message was refused
			acks[0], codes[0] = "nack", err.Error()
		default:
			acks[0] = "none"
		}
	} else {
		msgs := make([][]byte, len(vals))
		for i, v := range vals {
			m, err := proto.MarshalPublish(&client.Message{Value: data[i], Stream: stream, Subject: stream,
				AckInbox: fmt.Sprintf("c17ack.%d.%d", r.bid, v.ID), CorrelationId: strconv.Itoa(v.ID), AckPolicy: policy})
			if err != nil {
				vC17Fail("marshal: %v", err)
			}
			msgs[i] = m
		}
		send := func(i int) {
			if err := r.nc.Publish(stream, msgs[i]); err != nil {
				vC17Fail("nats publish: %v", err)
			}
			r.nc.Flush()
		}
		if how == "b2b" {
			// the processing loop takes the partition mutex after it received the first
			// message of a batch: holding it lets the whole batch queue up behind the first
			before, _ := p.sub.Delivered()
			p.mu.RLock()
			for i := range msgs {
				send(i)
			}
			deadline := time.Now().Add(vC17Deadline)
			for {
				if d, _ := p.sub.Delivered(); d >= before+int64(len(msgs)) || time.Now().After(deadline) {
					break
				}
				time.Sleep(200 * time.Microsecond)
			}
			time.Sleep(2 * time.Millisecond)
			p.mu.RUnlock()
		} else { // gap: the next message arrives while the loop waits for the batch to fill
			for i := range msgs {
				c0 := 0
				if r.wrapper != nil {
					c0 = r.wrapper.count()
				}
				send(i)
				if r.wrapper != nil && s == "enc" {
					end := time.Now().Add(2 * time.Second)
					for r.wrapper.count() == c0 && time.Now().Before(end) {
						time.Sleep(200 * time.Microsecond)
					}
					time.Sleep(3 * time.Millisecond)
				} else {
					time.Sleep(25 * time.Millisecond)
				}
			}
		}
		// collect the acks
		want := map[string]int{}
		for i, v := range vals {
			want[strconv.Itoa(v.ID)] = i
		}
		got := 0
		take := func(m *nats.Msg) {
			a, err := proto.UnmarshalAck(m.Data)
			if err != nil {
				vC17Fail("bad ack: %v", err)
			}
			if i, ok := want[a.CorrelationId]; ok && acks[i] == "" {
				acks[i], codes[i] = vC17AckKind(a), a.AckError.String()
				got++
			}
		}
		start := time.Now()
		timeout := time.After(vC17Deadline)
		for got < len(vals) {
			select {
			case m := <-r.ackCh:
				take(m)
			case <-time.After(250 * time.Millisecond):
				// A message whose Seal was refused (seen by the wrapper) and that is still unanswered
				// after every other message of the step was answered and a generous grace: both NATS
				// connections are flushed, then the missing answer is recorded as such ("none").
				if r.wrapper == nil || time.Since(start) < 3*time.Second {
					continue
				}
				onlyRefused := true
				r.wrapper.mu.Lock()
				for i := range vals {
					if acks[i] == "" && !r.wrapper.failed[string(data[i])] {
						onlyRefused = false
					}
				}
				r.wrapper.mu.Unlock()
				if !onlyRefused {
					continue
				}
				ackSrv.ncAcks.Flush()
				r.nc.Flush()
				time.Sleep(50 * time.Millisecond)
				for more := true; more; {
					select {
					case m := <-r.ackCh:
						take(m)
					default:
						more = false
					}
				}
				for i := range vals {
					if acks[i] == "" {
						acks[i] = "none"
						got++
					}
				}
			case <-timeout:
				vC17Fail("acks of %v: %v", vals, acks)
			}
		}
	}
	sites := []string{}
	if r.wrapper != nil && s == "enc" {
		r.wrapper.mu.Lock()
		sites = append(sites, r.wrapper.sites...)
		r.wrapper.mu.Unlock()
	}
	r.settle(s)
	return acks, sites, codes
}

func (r *vC17Run) subscribe(s string, from int64, rev bool, at string) ([]int, string, string) {
	ctx, cancel := context.WithTimeout(context.Background(), vC17Deadline)
	defer cancel()
	got := []int{}
	req := &client.SubscribeRequest{Stream: r.streams[s], StartPosition: client.StartPosition_OFFSET, StartOffset: from,
		StopPosition: client.StopPosition_STOP_LATEST}
	if rev { // from `from` down to the oldest message
		req.StopPosition, req.Reverse = client.StopPosition_STOP_ON_CANCEL, true
	}
	if _, ok := r.srvs[at]; !ok {
		vC17Fail("no replica %q", at)
	}
	req.ReadISRReplica = at != r.leaderOf(s) // served by an in-sync follower
	sub, err := r.srvs[at].api.SubscribeInternal(ctx, req)
	if err != nil {
		return got, "err", "subscribe: " + err.Error()
	}
	defer sub.Close()
	log := r.lastLog[at+"/"+s]
	for {
		select {
		case m := <-sub.Messages():
			hint := 0
			if int(m.Offset) < len(log) {
				hint = log[m.Offset].V
			}
			got = append(got, r.idOf(m.Value, hint))
		case st := <-sub.Errors():
			if st.Code() == codes.ResourceExhausted {
				return got, "eos", st.Message()
			}
			return got, "err", st.Message()
		case <-ctx.Done():
			vC17Fail("subscription on %s from %d neither ended nor failed (got %v)", s, from, got)
		}
	}
}

// tamper alters one byte of region reg of the stored value of entry j (1-based) in the segment file
func (r *vC17Run) tamper(at string, j int, reg string) string {
	if _, ok := r.cfgs[at]; !ok {
		vC17Fail("no replica %q", at)
	}
	raws := r.raw[at+"/enc"]
	if j < 1 || j > len(raws) {
		vC17Fail("tamper: no entry %d", j)
	}
	raw := raws[j-1]
	n := len(raw) - 69
	st, ln := 0, 1
	switch reg {
	case "WK":
		st, ln = 1, 40
	case "NONCE":
		st, ln = 41, 12
	case "CT":
		st, ln = 53, n
	case "TAG":
		st, ln = 53+n, 16
	}
	if ln <= 0 || st+ln > len(raw) { // an empty value has no ciphertext byte: its tag instead
		st, ln = len(raw)-16, 16
	}
	if st < 0 { // not a sealed value at all (shorter than the framing): any byte of it
		st, ln = 0, len(raw)
	}
	if ln == 0 {
		return "nothing to alter"
	}
	rng := rand.New(rand.NewSource(r.seed + int64(r.bid)*31 + int64(j)))
	pos := st + rng.Intn(ln)
	mask := []byte{0x01, 0x80, 0xff}[rng.Intn(3)]
	dir := filepath.Join(r.cfgs[at].DataDir, "streams", r.streams["enc"], "0")
	files, _ := filepath.Glob(filepath.Join(dir, "*.log"))
	sort.Strings(files)
	for _, f := range files {
		b, err := os.ReadFile(f)
		if err != nil {
			continue
		}
		if at := bytes.Index(b, raw); at >= 0 {
			// the commit log refuses (panics on) a message whose CRC-32C does not match: whoever
			// alters the stored value also rewrites the checksum of the log message around it.
			// Segment layout: [offset 8][timestamp 8][leader epoch 8][size 4][message: crc 4, ...]
			ms := 0
			for ms+28 <= len(b) {
				size := int(uint32(b[ms+24])<<24 | uint32(b[ms+25])<<16 | uint32(b[ms+26])<<8 | uint32(b[ms+27]))
				if at >= ms+28 && at < ms+28+size {
					break
				}
				ms += 28 + size
			}
			if ms+28 > len(b) {
				vC17Fail("tamper: log message around the value not found")
			}
			size := int(uint32(b[ms+24])<<24 | uint32(b[ms+25])<<16 | uint32(b[ms+26])<<8 | uint32(b[ms+27]))
			msg := append([]byte{}, b[ms+28:ms+28+size]...)
			if at+pos-(ms+28) >= len(msg) {
				vC17Fail("tamper: the stored value was not located unambiguously")
			}
			msg[at+pos-(ms+28)] ^= mask
			crc := crc32.Checksum(msg[4:], crc32.MakeTable(crc32.Castagnoli))
			msg[0], msg[1], msg[2], msg[3] = byte(crc>>24), byte(crc>>16), byte(crc>>8), byte(crc)
			fh, err := os.OpenFile(f, os.O_WRONLY, 0)
			if err != nil {
				vC17Fail("tamper open: %v", err)
			}
			if _, err := fh.WriteAt(msg, int64(ms+28)); err != nil {
				vC17Fail("tamper write: %v", err)
			}
			fh.Close()
			return fmt.Sprintf("%s+%d^%02x", reg, pos-st, mask)
		}
	}
	vC17Fail("tamper: stored value of entry %d not found in %s", j, dir)
	return ""
}

// leaderChange: the follower reports the partition leader to the metadata leader (what it does when
// the leader does not answer); with two replicas one report is a quorum and the controller hands the
// partition to the other in-sync replica.  Both servers keep running, the old leader becomes a follower.
func (r *vC17Run) leaderChange(s string) string {
	if len(r.reps) < 2 {
		vC17Fail("leader change needs a second replica")
	}
	old := r.leaderOf(s)
	r.settle(s)
	_, epoch := r.part(s).GetLeader()
	reporter := ""
	for _, rep := range r.reps {
		if rep != old {
			reporter = rep
		}
	}
	ctx, cancel := context.WithTimeout(context.Background(), vC17Deadline)
	st := r.srvs[reporter].metadata.ReportLeader(ctx, &proto.ReportLeaderOp{Stream: r.streams[s], Partition: 0,
		Replica: reporter, Leader: old, LeaderEpoch: epoch})
	cancel()
	if st != nil {
		vC17Fail("report leader: %v", st.Err())
	}
	vC17Wait("new leader of "+s, func() bool { return r.leaderOf(s) != old })
	r.waitLeader(s)
	r.settle(s)
	return r.leaderOf(s)
}

func vC17Tune(cfg *Config, bcfg map[string]interface{}) *Config {
	cfg.BatchMaxMessages = int(vIntDef(bcfg, "batchMax", 3))
	cfg.BatchMaxTime = time.Duration(vIntDef(bcfg, "batchWaitMs", 60)) * time.Millisecond
	cfg.Streams.Encryption = vStrDef(bcfg, "encby", "request") == "serverconfig"
	// no spontaneous ISR changes or failovers; followers learn the high watermark quickly
	cfg.Clustering.ReplicaMaxLagTime = time.Hour
	cfg.Clustering.ReplicaMaxLeaderTimeout = time.Hour
	cfg.Clustering.ReplicaMaxIdleWait = 20 * time.Millisecond
	return cfg
}

// vC17StartServers starts one server, or two servers forming one cluster
func vC17StartServers(t *testing.T, bcfg map[string]interface{}) (map[string]*Server, map[string]*Config) {
	cfgA := vC17Tune(vOneNodeConfig(t, "a"), bcfg)
	srvs := map[string]*Server{"a": vOneNodeServer(t, cfgA)}
	cfgs := map[string]*Config{"a": cfgA}
	if vIntDef(bcfg, "replicas", 1) > 1 {
		cfgB := vC17Tune(vJoinConfig(t, "b", cfgA), bcfg)
		srvB, err := RunServerWithConfig(cfgB)
		if err != nil {
			t.Fatalf("INCONCLUSIVE: second server did not start: %v", err)
		}
		srvs["b"], cfgs["b"] = srvB, cfgB
	}
	return srvs, cfgs
}

func TestVerifC17Server(t *testing.T) {
	sf := vLoadStimuli(t)
	tw := vOpenTrace(t)
	defer tw.Close()
	emit := func(ev interface{}) {
		tw.Emit(ev)
		tw.w.Flush()
	}
	intentPath := os.Getenv("VERIF_INTENT")
	intent := func(v interface{}) {
		if intentPath == "" {
			return
		}
		b, _ := json.Marshal(v)
		os.WriteFile(intentPath, b, 0o644)
	}
	old, had := os.LookupEnv(vC17KeyVar)
	defer func() {
		if had {
			os.Setenv(vC17KeyVar, old)
		} else {
			os.Unsetenv(vC17KeyVar)
		}
	}()
	defer os.RemoveAll(storagePath)

	var srvs map[string]*Server
	var cfgs map[string]*Config
	srvKey := ""
	stopAll := func() {
		for _, id := range []string{"b", "a"} {
			if srv := srvs[id]; srv != nil {
				srv.Stop()
			}
		}
		srvs = nil
	}
	defer stopAll()
	defer func() {
		if x := recover(); x != nil {
			tw.w.Flush()
			if f, ok := x.(vC17Fatal); ok {
				t.Fatalf("%s", f.msg)
			}
			// a panic raised by the harness itself is a harness fault (inconclusive); one raised by
			// server code that the harness called goes on and ends the process like any other
			pcs := make([]uintptr, 64)
			frames := runtime.CallersFrames(pcs[:runtime.Callers(2, pcs)])
			for {
				fr, more := frames.Next()
				if !strings.HasPrefix(fr.Function, "runtime.") {
					if strings.HasSuffix(fr.File, "_verif_test.go") {
						t.Fatalf("INCONCLUSIVE: harness panic: %v (%s:%d)", x, fr.File, fr.Line)
					}
					break
				}
				if !more {
					break
				}
			}
			panic(x)
		}
	}()

	for _, b := range sf.Behaviours {
		key := fmt.Sprintf("%v/%v/%v/%v", b.Cfg["batchMax"], b.Cfg["batchWaitMs"], b.Cfg["encby"], vIntDef(b.Cfg, "replicas", 1))
		vC17SetEnv("k1")
		if srvs == nil || key != srvKey {
			if srvs != nil {
				stopAll()
				os.RemoveAll(storagePath)
			}
			srvs, cfgs = vC17StartServers(t, b.Cfg)
			srvKey = key
		}
		reps := []string{"a"}
		if srvs["b"] != nil {
			reps = append(reps, "b")
		}
		cfg, srv := cfgs["a"], srvs["a"]
		r := &vC17Run{t: t, cfg: cfg, srvs: srvs, cfgs: cfgs, reps: reps, bid: b.ID, seed: vIntDef(b.Cfg, "seed", 1), wrap: vBool(b.Cfg, "wrap"), env: "k1",
			streams: map[string]string{"enc": fmt.Sprintf("c17e-%d", b.ID), "plain": fmt.Sprintf("c17p-%d", b.ID)},
			vals:    map[int][]byte{}, pub: map[string][]int{}, lastLog: map[string][]vC17Entry{}, raw: map[string][][]byte{}}
		for s, name := range r.streams {
			req := &client.CreateStreamRequest{Name: name, Subject: name, Encryption: &client.NullableBool{Value: s == "enc"}}
			if s == "enc" && cfg.Streams.Encryption {
				req.Encryption = nil // encrypted because the server configuration says so
			}
			req.ReplicationFactor = int32(len(reps))
			// the second server may not have joined the cluster yet
			deadline := time.Now().Add(vC17Deadline)
			for {
				_, err := srv.api.CreateStream(context.Background(), req)
				if err == nil {
					break
				}
				if len(reps) == 1 || time.Now().After(deadline) {
					vC17Fail("create stream: %v", err)
				}
				time.Sleep(50 * time.Millisecond)
			}
		}
		r.install()
		r.connect()
		emit(map[string]interface{}{"a": "Open", "t": b.ID, "st": r.state(), "obs": map[string]interface{}{"a": "Open"}})
		for sn, step := range b.Steps {
			a := vStr(step, "a")
			args := map[string]interface{}{}
			obs := map[string]interface{}{"a": a}
			for k, v := range step {
				if k != "a" {
					args[k] = v
				}
			}
			// a replica given as a role is resolved now (the recorded arguments name the server)
			switch a {
			case "Subscribe":
				args["at"], args["rev"] = r.replica(vStrDef(step, "at", "a"), vStr(step, "s")), vBool(step, "rev")
			case "Tamper", "Snapshot", "Install":
				args["r"] = r.replica(vStrDef(step, "r", "a"), "enc")
			case "Publish":
				if _, ok := args["fails"]; !ok {
					args["fails"] = []int{}
				}
			}
			intent(map[string]interface{}{"t": b.ID, "step": sn, "a": a, "args": args})
			switch a {
			case "Publish":
				vals := []vC17Val{}
				for _, m := range vList(step, "vals") {
					vals = append(vals, vC17Val{ID: int(vInt(m, "id")), Cls: vStr(m, "cls")})
				}
				fails := []int{}
				if fv, ok := step["fails"].([]interface{}); ok {
					for _, x := range fv {
						fails = append(fails, int(x.(float64)))
					}
				}
				args["fails"] = fails
				acks, sites, codes := r.publish(vStr(step, "s"), vals, fails, vStrDef(step, "how", "b2b"))
				obs["acks"], obs["sites"], obs["codes"] = acks, sites, codes
			case "Subscribe":
				at := args["at"].(string)
				got, end, msg := r.subscribe(vStr(step, "s"), vInt(step, "from"), vBool(step, "rev"), at)
				obs["got"], obs["end"], obs["msg"] = got, end, msg
			case "Pause":
				name := r.streams[vStr(step, "s")]
				if _, err := srv.api.PauseStream(context.Background(), &client.PauseStreamRequest{Name: name, Partitions: []int32{0}}); err != nil {
					vC17Fail("pause: %v", err)
				}
				vC17Wait("paused", func() bool {
					for _, rep := range r.reps {
						if !r.partAt(rep, vStr(step, "s")).IsPaused() {
							return false
						}
					}
					return true
				})
			case "Resume":
				ctx, cancel := context.WithTimeout(context.Background(), vC17Deadline)
				err := srv.api.resumeStream(ctx, r.streams[vStr(step, "s")], 0)
				cancel()
				if err != nil {
					vC17Fail("resume: %v", err)
				}
				vC17Wait("resumed", func() bool {
					for _, rep := range r.reps {
						if r.partAt(rep, vStr(step, "s")).IsPaused() {
							return false
						}
					}
					return true
				})
				r.install()
				r.settle(vStr(step, "s"))
			case "SetEnv":
				r.env = vStr(step, "k")
				vC17SetEnv(r.env)
			case "LeaderChange":
				obs["leader"] = r.leaderChange(vStr(step, "s"))
			case "Restart":
				if len(reps) > 1 {
					vC17Fail("restart of a two-server cluster is not supported by this harness")
				}
				r.disconnect()
				if err := srv.Stop(); err != nil {
					vC17Fail("stop: %v", err)
				}
				srv = vOneNodeServer(t, cfg)
				srvs["a"] = srv
				r.wrapper = nil
				r.install()
				r.connect()
			case "Tamper":
				at := args["r"].(string)
				obs["what"] = r.tamper(at, int(vInt(step, "j")), vStr(step, "reg"))
			case "Snapshot":
				obs["what"] = r.takeSnapshot(args["r"].(string))
			case "Install":
				obs["what"] = r.installSnapshot(args["r"].(string))
				// the partition objects of that server were built anew
				r.install()
				r.settle("enc")
				r.settle("plain")
			case "CreateProbe":
				name := fmt.Sprintf("c17probe-%d-%d", b.ID, sn)
				_, err := srv.api.CreateStream(context.Background(), &client.CreateStreamRequest{Name: name, Subject: name,
					Encryption: &client.NullableBool{Value: true}})
				obs["ok"] = err == nil
				if err == nil {
					srv.api.DeleteStream(context.Background(), &client.DeleteStreamRequest{Name: name})
				}
			default:
				vC17Fail("unknown step %s", a)
			}
			emit(map[string]interface{}{"a": a, "t": b.ID, "args": args, "st": r.state(), "obs": obs})
		}
		r.disconnect()
		vC17SetEnv("k1")
		for _, name := range r.streams {
			if _, err := srv.api.DeleteStream(context.Background(), &client.DeleteStreamRequest{Name: name}); err != nil {
				t.Logf("delete stream: %v", err)
			}
		}
	}
}
