//go:build verif

package server

// Lock-step replay of Cursors.tla behaviours on the real cursor manager
// (property C11: a cursor fetch returns the last cursor that was stored).
//
// One one-node server with the internal __cursors stream (1 partition,
// compaction on, small segments) serves every behaviour.  Before each
// behaviour the __cursors stream is deleted and re-created through the cursor
// manager's own Initialize(), the manager's 512-entry LRU is replaced by a
// <cap>-entry one and disableCache is set as the behaviour asks.
//
// Steps are intents:
//   Set(k, v)         apiServer.SetCursor
//   Fetch(k)          apiServer.FetchCursor (runs to its end)
//   FetchBegin(c, k)  apiServer.FetchCursor in a goroutine; it either returns
//                     (cache hit) or is parked at the gate
//                     "cursors.fetch.scanned" (after the log scan, before the
//                     cache fill)
//   FetchEnd(c)       releases that goroutine and takes its result
//   SetFail(k, v)     apiServer.SetCursor while the partition cannot commit (its
//                     minISR raised above the ISR size for the call): the record
//                     is appended, then the call is given up (context cancelled)
//   CleanBegin/End    log.Clean() in a goroutine parked at the commit-log gate
//                     "clean.before_swap" (compaction done, segment list not yet
//                     swapped), then released
//   Clean             log.Clean() of the cursors partition
//   Pause             partition.requestPause() - what the auto-pause timer of the
//                     cursors partition does when it fires
//   Restart(parts)    Server.Stop() + start over the same data directory, with
//                     cursors.stream.partitions = parts in the configuration
// After every step the abstract state is projected from the real objects: the
// cursors partition log (every entry read back and decoded), its segment
// files, HW, next offset, paused flag, the LRU content in recency order.
// The verdict is TLC's (Trace_Cursors.tla); this file never decides pass/fail.

import (
	"context"
	"fmt"
	"os"
	"path/filepath"
	"sort"
	"strconv"
	"strings"
	"sync"
	"testing"
	"time"

	lru "github.com/hashicorp/golang-lru"
	client "github.com/liftbridge-io/liftbridge-api/v2/go"
	"google.golang.org/grpc/status"

	"github.com/liftbridge-io/liftbridge/server/commitlog"
	proto "github.com/liftbridge-io/liftbridge/server/protocol"
)

const vC11Deadline = 20 * time.Second

type vC11Ent struct {
	Off int64  `json:"off"`
	Key string `json:"key"`
	Val int64  `json:"val"`
}

type vC11CE struct {
	Key string `json:"key"`
	Val int64  `json:"val"`
}

type vC11State struct {
	Clog    []vC11Ent `json:"clog"`
	Segs    []int64   `json:"segs"`
	Next    int64     `json:"next"`
	HW      int64     `json:"hw"`
	Cache   []vC11CE  `json:"cache"`
	CacheOn bool      `json:"cacheOn"`
	Paused  bool      `json:"paused"`
}

type vC11Obs struct {
	A   string `json:"a"`
	Ret int64  `json:"ret"`
	Err string `json:"err"`
}

type vC11Event struct {
	T    int                    `json:"t"`
	A    string                 `json:"a"`
	Args map[string]interface{} `json:"args"`
	St   vC11State              `json:"st"`
	Obs  vC11Obs                `json:"obs"`
}

type vC11Pending struct {
	reached chan struct{}
	release chan struct{}
	done    chan struct{}
	ret     int64
	err     error
}

var (
	vC11Mu       sync.Mutex
	vC11Arm      *vC11Pending // the FetchCursor call to park at the gate
	vC11ArmClean *vC11Pending // the Clean() call to park before its segment swap
)

type vC11Run struct {
	t        *testing.T
	srv      *Server
	cfg      *Config
	id       int
	cap      int
	cacheOn  bool
	failWait time.Duration
	stalled  *partition // partition whose minISR is raised (commit stalled) since a SetFail
	minISR   int
	pend     map[string]*vC11Pending
	clean    *vC11Pending
	lastSet  *vC11Ent // key/value of the SetCursor of the current step
	lastSt   vC11State
}

func (r *vC11Run) stream() string { return fmt.Sprintf("b%05d", r.id) }

func (r *vC11Run) part() *partition { return r.srv.metadata.GetPartition(cursorsStream, 0) }

func (r *vC11Run) shortKey(full string) string {
	return strings.TrimSuffix(full, ","+r.stream()+",0")
}

func (r *vC11Run) state() vC11State {
	p := r.part()
	st := vC11State{Clog: []vC11Ent{}, Segs: []int64{}, Cache: []vC11CE{}, CacheOn: !r.srv.cursors.disableCache}
	if p == nil {
		r.fail("cursors partition missing")
	}
	st.Paused = p.IsPaused()
	if st.Paused {
		// the log of a paused partition is closed; nothing can have changed
		st.Clog, st.Segs, st.Next, st.HW = r.lastSt.Clog, r.lastSt.Segs, r.lastSt.Next, r.lastSt.HW
	} else {
		st.Next = p.log.NewestOffset() + 1
		st.HW = p.log.HighWatermark()
		if r.clean != nil {
			// between the two steps of a clean the rewritten segments cannot be
			// read through a forward reader (it retries until the swap): the log is
			// the one projected before plus what this step appended
			st.Clog = append(st.Clog, r.lastSt.Clog...)
			if r.lastSet != nil && st.Next > r.lastSt.Next {
				st.Clog = append(st.Clog, vC11Ent{Off: st.Next - 1, Key: r.lastSet.Key, Val: r.lastSet.Val})
			}
		} else if p.log.OldestOffset() != -1 {
			rdr, err := p.log.NewReader(p.log.OldestOffset(), true)
			ctx, cancel := context.WithCancel(context.Background())
			cancel()
			buf := make([]byte, 28)
			// (a log that cannot be read back is projected as far as it can be
			// read: the projection is compared at conformance level only)
			for err == nil {
				m, off, _, _, err := rdr.ReadMessage(ctx, buf)
				if err != nil {
					break
				}
				cur := new(proto.Cursor)
				if err := cur.Unmarshal(m.Value()); err != nil {
					break
				}
				st.Clog = append(st.Clog, vC11Ent{Off: off, Key: r.shortKey(string(m.Key())), Val: cur.Offset})
			}
		}
		dir := filepath.Join(r.srv.config.DataDir, "streams", cursorsStream, "0")
		ents, _ := os.ReadDir(dir)
		for _, e := range ents {
			if strings.HasSuffix(e.Name(), ".log") {
				if b, err := strconv.ParseInt(strings.TrimSuffix(e.Name(), ".log"), 10, 64); err == nil {
					st.Segs = append(st.Segs, b)
				}
			}
		}
		sort.Slice(st.Segs, func(i, j int) bool { return st.Segs[i] < st.Segs[j] })
		if r.clean != nil && len(r.lastSt.Segs) > 0 {
			// ... and the segment list is the one before plus the segments rolled
			// since (the compaction has already deleted the files of segments it
			// emptied; they leave the list at the swap)
			segs := append([]int64{}, r.lastSt.Segs...)
			for _, b := range st.Segs {
				if b > segs[len(segs)-1] {
					segs = append(segs, b)
				}
			}
			st.Segs = segs
		}
	}
	c := r.srv.cursors
	c.mu.RLock()
	for _, k := range c.cache.Keys() { // oldest first
		if v, ok := c.cache.Peek(k); ok {
			st.Cache = append(st.Cache, vC11CE{Key: r.shortKey(k.(string)), Val: v.(int64)})
		}
	}
	c.mu.RUnlock()
	r.lastSt = st
	return st
}

// never leave a FetchCursor goroutine parked: Server.Stop() waits for nothing
// here, but the goroutine would leak into the next behaviour
func (r *vC11Run) releaseAll() {
	if r.clean != nil {
		close(r.clean.release)
		<-r.clean.done
		r.clean = nil
	}
	for c, p := range r.pend {
		close(p.release)
		<-p.done
		delete(r.pend, c)
	}
}

// let the cursors partition commit again
func (r *vC11Run) unstall() {
	if r.stalled != nil {
		r.stalled.mu.Lock()
		r.stalled.minISR = r.minISR
		r.stalled.mu.Unlock()
		r.stalled = nil
	}
}

func (r *vC11Run) fail(msg string) {
	r.releaseAll()
	r.t.Fatalf("INCONCLUSIVE: behaviour %d: %s", r.id, msg)
}

func vC11Err(err error) string {
	if err == nil {
		return ""
	}
	return status.Code(err).String()
}

func (r *vC11Run) fetch(k string) (int64, error) {
	ctx, cancel := context.WithTimeout(context.Background(), vC11Deadline)
	defer cancel()
	resp, err := r.srv.api.FetchCursor(ctx, &client.FetchCursorRequest{Stream: r.stream(), Partition: 0, CursorId: k})
	if err != nil {
		return -1, err
	}
	return resp.Offset, nil
}

func (r *vC11Run) waitLeader() {
	deadline := time.Now().Add(vC11Deadline)
	for {
		p := r.part()
		if p != nil {
			if l, _ := p.GetLeader(); l == "a" && (p.IsLeader() || p.IsPaused()) {
				return
			}
		}
		if time.Now().After(deadline) {
			r.fail("cursors partition did not start")
		}
		time.Sleep(time.Millisecond)
	}
}

func (r *vC11Run) tune() {
	cache, _ := lru.New(r.cap)
	r.srv.cursors.mu.Lock()
	r.srv.cursors.cache = cache
	r.srv.cursors.disableCache = !r.cacheOn
	r.srv.cursors.mu.Unlock()
}

func (r *vC11Run) step(step map[string]interface{}) vC11Event {
	a := vStr(step, "a")
	args := map[string]interface{}{"k": vStrDef(step, "k", ""), "c": vStrDef(step, "c", ""), "v": vIntDef(step, "v", 0)}
	obs := vC11Obs{A: a, Ret: -1}
	r.lastSet = nil
	if a == "Set" || a == "SetFail" {
		r.lastSet = &vC11Ent{Key: vStr(step, "k"), Val: vInt(step, "v")}
	}
	func() {
		defer func() {
			if p := recover(); p != nil {
				obs.Err = fmt.Sprintf("panic:%v", p)
			}
		}()
		switch a {
		case "Set":
			r.unstall()
			ctx, cancel := context.WithTimeout(context.Background(), vC11Deadline)
			_, err := r.srv.api.SetCursor(ctx, &client.SetCursorRequest{Stream: r.stream(), Partition: 0,
				CursorId: vStr(step, "k"), Offset: vInt(step, "v")})
			cancel()
			obs.Err = vC11Err(err)
			obs.Ret = vInt(step, "v")
		case "Fetch":
			ret, err := r.fetch(vStr(step, "k"))
			obs.Ret, obs.Err = ret, vC11Err(err)
		case "FetchBegin":
			c := vStr(step, "c")
			if _, busy := r.pend[c]; busy {
				obs.A, a = "Skip", "Skip"
				return
			}
			p := &vC11Pending{reached: make(chan struct{}), release: make(chan struct{}), done: make(chan struct{})}
			vC11Mu.Lock()
			vC11Arm = p
			vC11Mu.Unlock()
			k := vStr(step, "k")
			go func() {
				defer close(p.done)
				p.ret, p.err = r.fetch(k)
			}()
			select {
			case <-p.done:
				vC11Mu.Lock()
				vC11Arm = nil
				vC11Mu.Unlock()
				obs.Ret, obs.Err = p.ret, "done"
				if p.err != nil {
					obs.Err = vC11Err(p.err)
				}
			case <-p.reached:
				r.pend[c] = p
				obs.Err = "pending"
			case <-time.After(vC11Deadline):
				vC11Mu.Lock()
				vC11Arm = nil
				vC11Mu.Unlock()
				r.fail("FetchCursor neither returned nor reached the gate")
			}
		case "FetchEnd":
			c := vStr(step, "c")
			p, ok := r.pend[c]
			if !ok {
				obs.A, a = "Skip", "Skip"
				return
			}
			close(p.release)
			select {
			case <-p.done:
			case <-time.After(vC11Deadline):
				r.fail("released FetchCursor did not return")
			}
			delete(r.pend, c)
			obs.Ret, obs.Err = p.ret, vC11Err(p.err)
		case "SetFail":
			// SetCursor while the cursors partition cannot commit (ISR below the
			// minimum ISR size): the record is appended, the call fails at its deadline
			p := r.part()
			if p.IsPaused() {
				obs.A, a = "Skip", "Skip"
				return
			}
			// (the commit stays stalled until the next SetCursor that is to succeed:
			// un-stalling here would race with the commit loop's pending wake-up)
			if r.stalled != p {
				p.mu.Lock()
				r.minISR = p.minISR
				p.minISR = len(p.isr) + 1
				p.mu.Unlock()
				r.stalled = p
			}
			// the call is given up (its context cancelled) as soon as its record is in
			// the log: it can never be committed, waiting longer changes nothing
			before := p.log.NewestOffset()
			ctx, cancel := context.WithCancel(context.Background())
			errC := make(chan error, 1)
			go func() {
				_, err := r.srv.api.SetCursor(ctx, &client.SetCursorRequest{Stream: r.stream(), Partition: 0,
					CursorId: vStr(step, "k"), Offset: vInt(step, "v")})
				errC <- err
			}()
			var err error
			deadline := time.Now().Add(vC11Deadline)
			returned := false
			for p.log.NewestOffset() == before && !returned {
				select {
				case err = <-errC:
					returned = true
				default:
					if time.Now().After(deadline) {
						cancel()
						<-errC
						r.unstall()
						r.fail("SetCursor neither appended its record nor returned")
					}
					time.Sleep(200 * time.Microsecond)
				}
			}
			cancel()
			if !returned {
				err = <-errC
			}
			obs.Err = vC11Err(err)
			obs.Ret = vInt(step, "v")
		case "CleanBegin":
			p := r.part()
			if p.IsPaused() || r.clean != nil {
				obs.A, a = "Skip", "Skip"
				return
			}
			c := &vC11Pending{reached: make(chan struct{}), release: make(chan struct{}), done: make(chan struct{})}
			vC11Mu.Lock()
			vC11ArmClean = c
			vC11Mu.Unlock()
			go func() {
				defer close(c.done)
				c.err = p.log.Clean()
			}()
			select {
			case <-c.reached:
				r.clean = c
			case <-c.done:
				vC11Mu.Lock()
				vC11ArmClean = nil
				vC11Mu.Unlock()
				obs.Err = "done"
				if c.err != nil {
					obs.Err = c.err.Error()
				}
			case <-time.After(vC11Deadline):
				r.fail("Clean neither returned nor reached the gate")
			}
		case "CleanEnd":
			if r.clean == nil {
				obs.A, a = "Skip", "Skip"
				return
			}
			c := r.clean
			close(c.release)
			select {
			case <-c.done:
			case <-time.After(vC11Deadline):
				r.fail("released Clean did not return")
			}
			r.clean = nil
			if c.err != nil {
				obs.Err = c.err.Error()
			}
		case "Clean":
			if p := r.part(); p.IsPaused() || r.clean != nil {
				obs.A, a = "Skip", "Skip"
			} else if err := p.log.Clean(); err != nil {
				obs.Err = err.Error()
			}
		case "Pause":
			if r.clean != nil || r.part().IsPaused() {
				obs.A, a = "Skip", "Skip"
				return
			}
			// what the auto-pause timer of the partition does when it fires
			err := r.part().requestPause()
			if err != nil {
				obs.Err = err.Error()
			}
			deadline := time.Now().Add(vC11Deadline)
			for err == nil && !r.part().IsPaused() {
				if time.Now().After(deadline) {
					r.fail("partition did not pause")
				}
				time.Sleep(time.Millisecond)
			}
		case "Restart":
			if len(r.pend) > 0 || r.clean != nil {
				obs.A, a = "Skip", "Skip"
				return
			}
			// the configured number of cursors partitions may differ after the restart
			// (the existing __cursors stream keeps the partitions it was created with)
			r.cfg.CursorsStream.Partitions = int32(vIntDef(step, "parts", 1))
			args["v"] = vIntDef(step, "parts", 1)
			r.srv.Stop()
			r.srv = vOneNodeServer(r.t, r.cfg)
			r.waitLeader()
			r.tune()
		default:
			r.t.Fatalf("unknown action %q", a)
		}
	}()
	return vC11Event{T: r.id, A: a, Args: args, St: r.state(), Obs: obs}
}

func TestVerifCursors(t *testing.T) {
	sf := vLoadStimuli(t)
	tw := vOpenTrace(t)
	defer tw.Close()

	VerifGateHook = func(name string) {
		if name != "cursors.fetch.scanned" {
			return
		}
		vC11Mu.Lock()
		p := vC11Arm
		vC11Arm = nil
		vC11Mu.Unlock()
		if p != nil {
			close(p.reached)
			<-p.release
		}
	}
	defer func() { VerifGateHook = nil }()
	commitlog.VerifGateHook = func(name string) {
		if name != "clean.before_swap" {
			return
		}
		vC11Mu.Lock()
		c := vC11ArmClean
		vC11ArmClean = nil
		vC11Mu.Unlock()
		if c != nil {
			close(c.reached)
			<-c.release
		}
	}
	defer func() { commitlog.VerifGateHook = nil }()

	defer os.RemoveAll(storagePath)
	cfg := vOneNodeConfig(t, "a")
	cfg.CursorsStream.Partitions = 1
	cfg.CursorsStream.AutoPauseTime = 0
	cfg.Streams.CleanerInterval = 24 * time.Hour
	srv := vOneNodeServer(t, cfg)
	run := &vC11Run{t: t, srv: srv, cfg: cfg, id: 0, cap: 2, cacheOn: true, pend: map[string]*vC11Pending{},
		failWait: 100 * time.Millisecond}
	defer func() { run.srv.Stop() }()
	run.waitLeader()

	// size of one stored cursor entry (fixed-width names, values 1..127)
	ctx, cancel := context.WithTimeout(context.Background(), vC11Deadline)
	_, err := srv.api.SetCursor(ctx, &client.SetCursorRequest{Stream: run.stream(), Partition: 0, CursorId: "k1", Offset: 1})
	cancel()
	if err != nil {
		t.Fatalf("INCONCLUSIVE: probe SetCursor: %v", err)
	}
	fi, err := os.Stat(filepath.Join(cfg.DataDir, "streams", cursorsStream, "0", fmt.Sprintf("%020d.log", 0)))
	if err != nil || fi.Size() == 0 {
		t.Fatalf("INCONCLUSIVE: probe segment: %v", err)
	}
	entSize := fi.Size()

	for _, b := range sf.Behaviours {
		run.id = b.ID
		run.cap = int(vIntDef(b.Cfg, "cap", 2))
		run.cacheOn = vBool(b.Cfg, "cacheOn")
		run.pend = map[string]*vC11Pending{}
		run.unstall()
		// fresh cursors stream with segments of segCap entries
		run.cfg.CursorsStream.Partitions = 1
		run.srv.config.CursorsStream.Partitions = 1
		run.srv.config.Streams.SegmentMaxBytes = vIntDef(b.Cfg, "segCap", 2) * entSize
		ctx, cancel := context.WithTimeout(context.Background(), vC11Deadline)
		st := run.srv.metadata.DeleteStream(ctx, &proto.DeleteStreamOp{Stream: cursorsStream})
		cancel()
		if st != nil {
			t.Fatalf("INCONCLUSIVE: delete cursors stream: %v", st.Err())
		}
		if err := run.srv.cursors.Initialize(); err != nil {
			t.Fatalf("INCONCLUSIVE: re-create cursors stream: %v", err)
		}
		run.waitLeader()
		run.tune()
		run.lastSt = vC11State{}
		tw.Emit(vC11Event{T: b.ID, A: "Open", Args: map[string]interface{}{"k": "", "c": "", "v": 0},
			St: run.state(), Obs: vC11Obs{A: "Open", Ret: -1}})
		for _, step := range b.Steps {
			tw.Emit(run.step(step))
		}
		run.releaseAll()
	}
}
