//go:build verif

package server

// Lock-step replay of Cursors.tla behaviours on the real cursor manager
// (property C11: a cursor fetch returns the last cursor that was stored).
//
// One one-node server with the internal __cursors stream (1 partition,
// compaction on, small segments) serves every behaviour.  Before each
// behaviour the __cursors stream is deleted and re-created through the cursor
// manager's own Initialize(), the manager's 512-entry LRU is replaced by a
// <cap>-entry one and disableCache is set as the behaviour asks.
//
// Steps are intents:
//   Set(k, v)         apiServer.SetCursor
//   Fetch(k)          apiServer.FetchCursor (runs to its end)
//   FetchBegin(c, k)  apiServer.FetchCursor in a goroutine; it either returns
//                     (cache hit) or is parked at the gate
//                     "cursors.fetch.scanned" (after the log scan, before the
//                     cache fill)
//   FetchEnd(c)       releases that goroutine and takes its result
//   SetFail(k, v)     apiServer.SetCursor while the partition cannot commit (its
//                     minISR raised above the ISR size for the call): the record
//                     is appended, then the call is given up (context cancelled)
//   CleanBegin/End    log.Clean() in a goroutine parked at the commit-log gate
//                     "clean.before_swap" (compaction done, segment list not yet
//                     swapped), then released
//   Clean             log.Clean() of the cursors partition
//   Roll              the split check of a tick of the log's cleaner loop with the
//                     segment age limit passed: a non-empty active segment is
//                     rolled, which leaves an empty active segment
//   Pause             partition.requestPause() - what the auto-pause timer of the
//                     cursors partition does when it fires
//   Restart(parts)    Server.Stop() + start over the same data directory, with
//                     cursors.stream.partitions = parts in the configuration
// After every step the abstract state is projected from the real objects: the
// cursors partition log (every entry read back and decoded), its segment
// files, HW, next offset, paused flag, the LRU content in recency order.
// The verdict is TLC's (Trace_Cursors.tla); this file never decides pass/fail.

import (
	"context"
	"fmt"
	"os"
	"path/filepath"
	"sort"
	"strconv"
	"strings"
	"sync"
	"testing"
	"time"

	lru "github.com/hashicorp/golang-lru"
	client "github.com/liftbridge-io/liftbridge-api/v2/go"
	"google.golang.org/grpc/status"

	"github.com/liftbridge-io/liftbridge/server/commitlog"
	proto "github.com/liftbridge-io/liftbridge/server/protocol"
)

const vC11Deadline = 30 * time.Second

type vC11Ent struct {
	Off int64  `json:"off"`
	Key string `json:"key"`
	Val int64  `json:"val"`
}

type vC11CE struct {
	Key string `json:"key"`
	Val int64  `json:"val"`
}

type vC11State struct {
	Clog    []vC11Ent `json:"clog"`
	Segs    []int64   `json:"segs"`
	Next    int64     `json:"next"`
	HW      int64     `json:"hw"`
	Cache   []vC11CE  `json:"cache"`
	CacheOn bool      `json:"cacheOn"`
	SegCap  int64     `json:"segCap"`
	Ldr     string    `json:"ldr"`    // the server that leads the cursors partition
	OCache  []vC11CE  `json:"ocache"` // the cursor cache of the other server (two-server runs)
	Paused  bool      `json:"paused"`
}

type vC11Obs struct {
	A   string `json:"a"`
	Ret int64  `json:"ret"`
	Err string `json:"err"`
}

type vC11Event struct {
	T    int                    `json:"t"`
	A    string                 `json:"a"`
	Args map[string]interface{} `json:"args"`
	St   vC11State              `json:"st"`
	Obs  vC11Obs                `json:"obs"`
}

type vC11Pending struct {
	reached chan struct{}
	release chan struct{}
	done    chan struct{}
	ret     int64
	err     error
}

var (
	vC11Mu       sync.Mutex
	vC11Arm      *vC11Pending // the FetchCursor call to park at the gate
	vC11ArmClean *vC11Pending // the Clean() call to park before its segment swap
)

type vC11Run struct {
	t        *testing.T
	srv      *Server   // the server that leads the cursors partition (the calls go to it)
	all      []*Server // every server of the run (one, or two replicating the cursors partition)
	cfg      *Config
	id       int
	cap      int
	cacheOn  bool
	segCap   int64 // entries per segment of the cursors partition (segment size limit / entry size)
	failWait time.Duration
	stalled  *partition // partition whose minISR is raised (commit stalled) since a SetFail
	minISR   int
	pend     map[string]*vC11Pending
	clean    *vC11Pending
	lastSet  *vC11Ent // key/value of the SetCursor of the current step
	lastSt   vC11State
}

func (r *vC11Run) stream() string { return fmt.Sprintf("b%05d", r.id) }

func (r *vC11Run) part() *partition { return r.srv.metadata.GetPartition(cursorsStream, 0) }

// the server that does not lead the cursors partition (two-server runs)
func (r *vC11Run) other() *Server {
	for _, s := range r.all {
		if s != r.srv {
			return s
		}
	}
	return nil
}

func vC11Following(p *partition) bool {
	p.mu.RLock()
	defer p.mu.RUnlock()
	return p.isFollowing
}

// two servers: r.srv = the server both agree on as the leader of the cursors
// partition, once it runs as the leader and the other one as its follower
func (r *vC11Run) roles(want string) {
	if len(r.all) < 2 {
		return
	}
	deadline := time.Now().Add(vC11Deadline)
	for {
		pa, pb := r.all[0].metadata.GetPartition(cursorsStream, 0), r.all[1].metadata.GetPartition(cursorsStream, 0)
		if pa != nil && pb != nil {
			la, ea := pa.GetLeader()
			lb, eb := pb.GetLeader()
			if la == lb && ea == eb && (want == "" || la == want) {
				for i, p := range []*partition{pa, pb} {
					q := []*partition{pb, pa}[i]
					if r.all[i].config.Clustering.ServerID == la && p.IsLeader() && vC11Following(q) && len(p.GetISR()) == 2 {
						r.srv = r.all[i]
						return
					}
				}
			}
		}
		if time.Now().After(deadline) {
			r.fail("the servers did not take their roles for the cursors partition")
		}
		time.Sleep(200 * time.Microsecond)
	}
}

// two servers: wait until the follower has what the leader has (log end, HW, paused
// or not) - every step of a behaviour starts from replicas that agree
func (r *vC11Run) sync() {
	if len(r.all) < 2 {
		return
	}
	deadline := time.Now().Add(vC11Deadline)
	for {
		lp, fp := r.part(), r.other().metadata.GetPartition(cursorsStream, 0)
		if lp != nil && fp != nil && lp.IsPaused() == fp.IsPaused() {
			if lp.IsPaused() {
				return
			}
			if fp.log.NewestOffset() == lp.log.NewestOffset() && fp.log.HighWatermark() == lp.log.HighWatermark() {
				return
			}
		}
		if time.Now().After(deadline) {
			r.fail("the follower of the cursors partition did not catch up")
		}
		time.Sleep(200 * time.Microsecond)
	}
}

func vC11Cache(srv *Server, short func(string) string) []vC11CE {
	out := []vC11CE{}
	c := srv.cursors
	c.mu.RLock()
	for _, k := range c.cache.Keys() { // oldest first
		if v, ok := c.cache.Peek(k); ok {
			out = append(out, vC11CE{Key: short(k.(string)), Val: v.(int64)})
		}
	}
	c.mu.RUnlock()
	return out
}

func (r *vC11Run) shortKey(full string) string {
	return strings.TrimSuffix(full, ","+r.stream()+",0")
}

func (r *vC11Run) state() vC11State {
	p := r.part()
	st := vC11State{Clog: []vC11Ent{}, Segs: []int64{}, Cache: []vC11CE{}, CacheOn: !r.srv.cursors.disableCache,
		SegCap: r.segCap, OCache: []vC11CE{}}
	if p == nil {
		r.fail("cursors partition missing")
	}
	st.Ldr, _ = p.GetLeader()
	if o := r.other(); o != nil {
		st.OCache = vC11Cache(o, r.shortKey)
	}
	st.Paused = p.IsPaused()
	if st.Paused {
		// the log of a paused partition is closed; nothing can have changed
		st.Clog, st.Segs, st.Next, st.HW = r.lastSt.Clog, r.lastSt.Segs, r.lastSt.Next, r.lastSt.HW
	} else {
		st.Next = p.log.NewestOffset() + 1
		st.HW = p.log.HighWatermark()
		if r.clean != nil {
			// between the two steps of a clean the rewritten segments cannot be
			// read through a forward reader (it retries until the swap): the log is
			// the one projected before plus what this step appended
			st.Clog = append(st.Clog, r.lastSt.Clog...)
			if r.lastSet != nil && st.Next > r.lastSt.Next {
				st.Clog = append(st.Clog, vC11Ent{Off: st.Next - 1, Key: r.lastSet.Key, Val: r.lastSet.Val})
			}
		} else if p.log.OldestOffset() != -1 {
			rdr, err := p.log.NewReader(p.log.OldestOffset(), true)
			ctx, cancel := context.WithCancel(context.Background())
			cancel()
			buf := make([]byte, 28)
			// (a log that cannot be read back is projected as far as it can be
			// read: the projection is compared at conformance level only)
			for err == nil {
				m, off, _, _, err := rdr.ReadMessage(ctx, buf)
				if err != nil {
					break
				}
				cur := new(proto.Cursor)
				if err := cur.Unmarshal(m.Value()); err != nil {
					break
				}
				st.Clog = append(st.Clog, vC11Ent{Off: off, Key: r.shortKey(string(m.Key())), Val: cur.Offset})
			}
		}
		dir := filepath.Join(r.srv.config.DataDir, "streams", cursorsStream, "0")
		ents, _ := os.ReadDir(dir)
		for _, e := range ents {
			if strings.HasSuffix(e.Name(), ".log") {
				if b, err := strconv.ParseInt(strings.TrimSuffix(e.Name(), ".log"), 10, 64); err == nil {
					st.Segs = append(st.Segs, b)
				}
			}
		}
		sort.Slice(st.Segs, func(i, j int) bool { return st.Segs[i] < st.Segs[j] })
		if r.clean != nil && len(r.lastSt.Segs) > 0 {
			// ... and the segment list is the one before plus the segments rolled
			// since (the compaction has already deleted the files of segments it
			// emptied; they leave the list at the swap)
			segs := append([]int64{}, r.lastSt.Segs...)
			for _, b := range st.Segs {
				if b > segs[len(segs)-1] {
					segs = append(segs, b)
				}
			}
			st.Segs = segs
		}
	}
	st.Cache = vC11Cache(r.srv, r.shortKey)
	r.lastSt = st
	return st
}

// never leave a FetchCursor goroutine parked: Server.Stop() waits for nothing
// here, but the goroutine would leak into the next behaviour
func (r *vC11Run) releaseAll() {
	wait := func(done chan struct{}, what string) {
		select {
		case <-done:
		case <-time.After(vC11Deadline):
			// (no r.fail here: it would come back to this function)
			r.t.Fatalf("INCONCLUSIVE: behaviour %d: a released %s did not return", r.id, what)
		}
	}
	if c := r.clean; c != nil {
		r.clean = nil
		close(c.release)
		wait(c.done, "Clean")
	}
	for c, p := range r.pend {
		delete(r.pend, c)
		close(p.release)
		wait(p.done, "FetchCursor")
	}
}

// let the cursors partition commit again
func (r *vC11Run) unstall() {
	if r.stalled != nil {
		r.stalled.mu.Lock()
		r.stalled.minISR = r.minISR
		r.stalled.mu.Unlock()
		r.stalled = nil
	}
}

func (r *vC11Run) fail(msg string) {
	r.releaseAll()
	r.t.Fatalf("INCONCLUSIVE: behaviour %d: %s", r.id, msg)
}

func vC11Err(err error) string {
	if err == nil {
		return ""
	}
	return status.Code(err).String()
}

func (r *vC11Run) fetch(k string) (int64, error) { return r.fetchAt(r.srv, k) }

func (r *vC11Run) fetchAt(srv *Server, k string) (int64, error) {
	ctx, cancel := context.WithTimeout(context.Background(), vC11Deadline)
	defer cancel()
	resp, err := srv.api.FetchCursor(ctx, &client.FetchCursorRequest{Stream: r.stream(), Partition: 0, CursorId: k})
	if err != nil {
		return -1, err
	}
	return resp.Offset, nil
}

func (r *vC11Run) waitLeader() {
	if len(r.all) > 1 {
		r.roles("")
		return
	}
	deadline := time.Now().Add(vC11Deadline)
	for {
		p := r.part()
		if p != nil {
			if l, _ := p.GetLeader(); l == "a" && (p.IsLeader() || p.IsPaused()) {
				return
			}
		}
		if time.Now().After(deadline) {
			r.fail("cursors partition did not start")
		}
		time.Sleep(time.Millisecond)
	}
}

func (r *vC11Run) tune() {
	for _, s := range r.all {
		cache, _ := lru.New(r.cap)
		s.cursors.mu.Lock()
		s.cursors.cache = cache
		s.cursors.disableCache = !r.cacheOn
		s.cursors.mu.Unlock()
	}
}

// the clean / split check of the follower's copy of the cursors log (two-server runs):
// the replicas are cleaned at the same moments so that their logs stay the same
func (r *vC11Run) followerLog() commitlog.CommitLog {
	if o := r.other(); o != nil {
		if p := o.metadata.GetPartition(cursorsStream, 0); p != nil && !p.IsPaused() {
			return p.log
		}
	}
	return nil
}

func (r *vC11Run) step(step map[string]interface{}) vC11Event {
	a := vStr(step, "a")
	args := map[string]interface{}{"k": vStrDef(step, "k", ""), "c": vStrDef(step, "c", ""), "v": vIntDef(step, "v", 0)}
	obs := vC11Obs{A: a, Ret: -1}
	r.lastSet = nil
	if a == "Set" || a == "SetFail" {
		r.lastSet = &vC11Ent{Key: vStr(step, "k"), Val: vInt(step, "v")}
	}
	func() {
		defer func() {
			if p := recover(); p != nil {
				obs.Err = fmt.Sprintf("panic:%v", p)
			}
		}()
		switch a {
		case "Set":
			r.unstall()
			ctx, cancel := context.WithTimeout(context.Background(), vC11Deadline)
			_, err := r.srv.api.SetCursor(ctx, &client.SetCursorRequest{Stream: r.stream(), Partition: 0,
				CursorId: vStr(step, "k"), Offset: vInt(step, "v")})
			cancel()
			obs.Err = vC11Err(err)
			obs.Ret = vInt(step, "v")
		case "Fetch":
			ret, err := r.fetch(vStr(step, "k"))
			obs.Ret, obs.Err = ret, vC11Err(err)
		case "FetchBegin":
			c := vStr(step, "c")
			if _, busy := r.pend[c]; busy {
				obs.A, a = "Skip", "Skip"
				return
			}
			p := &vC11Pending{reached: make(chan struct{}), release: make(chan struct{}), done: make(chan struct{})}
			vC11Mu.Lock()
			vC11Arm = p
			vC11Mu.Unlock()
			k := vStr(step, "k")
			go func() {
				defer close(p.done)
				p.ret, p.err = r.fetch(k)
			}()
			select {
			case <-p.done:
				vC11Mu.Lock()
				vC11Arm = nil
				vC11Mu.Unlock()
				obs.Ret, obs.Err = p.ret, "done"
				if p.err != nil {
					obs.Err = vC11Err(p.err)
				}
			case <-p.reached:
				r.pend[c] = p
				obs.Err = "pending"
			case <-time.After(vC11Deadline):
				vC11Mu.Lock()
				vC11Arm = nil
				vC11Mu.Unlock()
				r.fail("FetchCursor neither returned nor reached the gate")
			}
		case "FetchEnd":
			c := vStr(step, "c")
			p, ok := r.pend[c]
			if !ok {
				obs.A, a = "Skip", "Skip"
				return
			}
			close(p.release)
			select {
			case <-p.done:
			case <-time.After(vC11Deadline):
				r.fail("released FetchCursor did not return")
			}
			delete(r.pend, c)
			obs.Ret, obs.Err = p.ret, vC11Err(p.err)
		case "SetFail":
			// SetCursor while the cursors partition cannot commit (ISR below the
			// minimum ISR size): the record is appended, the call fails at its deadline
			p := r.part()
			if p.IsPaused() {
				obs.A, a = "Skip", "Skip"
				return
			}
			// (the commit stays stalled until the next SetCursor that is to succeed:
			// un-stalling here would race with the commit loop's pending wake-up)
			if r.stalled != p {
				p.mu.Lock()
				r.minISR = p.minISR
				p.minISR = len(p.isr) + 1
				p.mu.Unlock()
				r.stalled = p
			}
			// the call is given up (its context cancelled) as soon as its record is in
			// the log: it can never be committed, waiting longer changes nothing
			before := p.log.NewestOffset()
			ctx, cancel := context.WithCancel(context.Background())
			errC := make(chan error, 1)
			go func() {
				_, err := r.srv.api.SetCursor(ctx, &client.SetCursorRequest{Stream: r.stream(), Partition: 0,
					CursorId: vStr(step, "k"), Offset: vInt(step, "v")})
				errC <- err
			}()
			var err error
			deadline := time.Now().Add(vC11Deadline)
			returned := false
			for p.log.NewestOffset() == before && !returned {
				select {
				case err = <-errC:
					returned = true
				default:
					if time.Now().After(deadline) {
						cancel()
						<-errC
						r.unstall()
						r.fail("SetCursor neither appended its record nor returned")
					}
					time.Sleep(200 * time.Microsecond)
				}
			}
			cancel()
			if !returned {
				select {
				case err = <-errC:
				case <-time.After(vC11Deadline):
					r.unstall()
					r.fail("cancelled SetCursor did not return")
				}
			}
			obs.Err = vC11Err(err)
			obs.Ret = vInt(step, "v")
		case "CleanBegin":
			p := r.part()
			if p.IsPaused() || r.clean != nil {
				obs.A, a = "Skip", "Skip"
				return
			}
			c := &vC11Pending{reached: make(chan struct{}), release: make(chan struct{}), done: make(chan struct{})}
			vC11Mu.Lock()
			vC11ArmClean = c
			vC11Mu.Unlock()
			go func() {
				defer close(c.done)
				c.err = p.log.Clean()
			}()
			select {
			case <-c.reached:
				r.clean = c
				// (two servers: the follower's copy is cleaned now, as a whole: it decides
				// on the same log and HW as the leader's clean just did)
				if fl := r.followerLog(); fl != nil {
					if err := fl.Clean(); err != nil {
						r.fail("clean of the follower's log: " + err.Error())
					}
				}
			case <-c.done:
				vC11Mu.Lock()
				vC11ArmClean = nil
				vC11Mu.Unlock()
				obs.Err = "done"
				if c.err != nil {
					obs.Err = c.err.Error()
				}
			case <-time.After(vC11Deadline):
				r.fail("Clean neither returned nor reached the gate")
			}
		case "CleanEnd":
			if r.clean == nil {
				obs.A, a = "Skip", "Skip"
				return
			}
			c := r.clean
			close(c.release)
			select {
			case <-c.done:
			case <-time.After(vC11Deadline):
				r.fail("released Clean did not return")
			}
			r.clean = nil
			if c.err != nil {
				obs.Err = c.err.Error()
			}
		case "Clean":
			if p := r.part(); p.IsPaused() || r.clean != nil {
				obs.A, a = "Skip", "Skip"
			} else if err := p.log.Clean(); err != nil {
				obs.Err = err.Error()
			} else if fl := r.followerLog(); fl != nil {
				if err := fl.Clean(); err != nil {
					r.fail("clean of the follower's log: " + err.Error())
				}
			}
		case "Handover":
			// the controller elects the other in-sync replica as the leader of the
			// cursors partition (metadataAPI.electNewPartitionLeader, Raft operation
			// applied on both servers); both servers keep running
			p := r.part()
			if len(r.all) < 2 || p.IsPaused() || r.clean != nil || len(r.pend) > 0 ||
				p.log.HighWatermark() != p.log.NewestOffset() {
				obs.A, a = "Skip", "Skip"
				return
			}
			r.unstall()
			var ms *Server
			for deadline := time.Now().Add(vC11Deadline); ms == nil; time.Sleep(time.Millisecond) {
				for _, s := range r.all {
					if s.IsLeader() {
						ms = s
					}
				}
				if ms == nil && time.Now().After(deadline) {
					r.fail("no metadata leader")
				}
			}
			mp := ms.metadata.GetPartition(cursorsStream, 0)
			leader, epoch := mp.GetLeader()
			ctx, cancel := context.WithTimeout(context.Background(), vC11Deadline)
			st := ms.metadata.electNewPartitionLeader(ctx, mp, leader, epoch)
			cancel()
			if st != nil {
				r.fail("leader election of the cursors partition: " + st.Message())
			}
			r.roles(r.other().config.Clustering.ServerID)
		case "FetchOther":
			if len(r.all) < 2 {
				obs.A, a = "Skip", "Skip"
				return
			}
			ret, err := r.fetchAt(r.other(), vStr(step, "k"))
			obs.Ret, obs.Err = ret, vC11Err(err)
			if err != nil {
				obs.Ret = -1
			}
		case "Roll":
			// the split check of a cleaner-loop tick, with the segment age limit passed
			p := r.part()
			if p.IsPaused() {
				obs.A, a = "Skip", "Skip"
				return
			}
			if _, err := commitlog.VerifSplitCheck(p.log, true); err != nil {
				obs.Err = err.Error()
			} else if fl := r.followerLog(); fl != nil {
				if _, err := commitlog.VerifSplitCheck(fl, true); err != nil {
					r.fail("split check of the follower's log: " + err.Error())
				}
			}
		case "Pause":
			if r.clean != nil || r.part().IsPaused() {
				obs.A, a = "Skip", "Skip"
				return
			}
			// what the auto-pause timer of the partition does when it fires
			err := r.part().requestPause()
			if err != nil {
				obs.Err = err.Error()
			}
			deadline := time.Now().Add(vC11Deadline)
			for err == nil && !r.part().IsPaused() {
				if time.Now().After(deadline) {
					r.fail("partition did not pause")
				}
				time.Sleep(time.Millisecond)
			}
			for o := r.other(); err == nil && o != nil && !o.metadata.GetPartition(cursorsStream, 0).IsPaused(); {
				if time.Now().After(deadline) {
					r.fail("the follower's partition did not pause")
				}
				time.Sleep(time.Millisecond)
			}
		case "Restart":
			if len(r.pend) > 0 || r.clean != nil || len(r.all) > 1 {
				obs.A, a = "Skip", "Skip"
				return
			}
			// the configured number of cursors partitions may differ after the restart
			// (the existing __cursors stream keeps the partitions it was created with)
			r.cfg.CursorsStream.Partitions = int32(vIntDef(step, "parts", 1))
			args["v"] = vIntDef(step, "parts", 1)
			r.srv.Stop()
			r.srv = vOneNodeServer(r.t, r.cfg)
			r.all = []*Server{r.srv}
			r.waitLeader()
			r.tune()
		default:
			r.t.Fatalf("unknown action %q", a)
		}
	}()
	r.sync()
	return vC11Event{T: r.id, A: a, Args: args, St: r.state(), Obs: obs}
}

func TestVerifCursors(t *testing.T) {
	sf := vLoadStimuli(t)
	tw := vOpenTrace(t)
	defer tw.Close()

	VerifGateHook = func(name string) {
		if name != "cursors.fetch.scanned" {
			return
		}
		vC11Mu.Lock()
		p := vC11Arm
		vC11Arm = nil
		vC11Mu.Unlock()
		if p != nil {
			close(p.reached)
			<-p.release
		}
	}
	defer func() { VerifGateHook = nil }()
	commitlog.VerifGateHook = func(name string) {
		if name != "clean.before_swap" {
			return
		}
		vC11Mu.Lock()
		c := vC11ArmClean
		vC11ArmClean = nil
		vC11Mu.Unlock()
		if c != nil {
			close(c.reached)
			<-c.release
		}
	}
	defer func() { commitlog.VerifGateHook = nil }()

	defer os.RemoveAll(storagePath)
	cfg := vOneNodeConfig(t, "a")
	cfg.CursorsStream.Partitions = 1
	cfg.CursorsStream.AutoPauseTime = 0
	cfg.Streams.CleanerInterval = 24 * time.Hour
	two := os.Getenv("VERIF_C11_SERVERS") == "2"
	tuneRepl := func(c *Config) {
		// two servers replicate the cursors partition: nothing spontaneous (no ISR
		// shrink, no leader report under load), the HW reaches the follower quickly
		c.CursorsStream.Partitions = 1
		c.CursorsStream.AutoPauseTime = 0
		c.Streams.CleanerInterval = 24 * time.Hour
		c.Clustering.ReplicaMaxLagTime = time.Hour
		c.Clustering.ReplicaMaxLeaderTimeout = time.Hour
		c.Clustering.ReplicaMaxIdleWait = 20 * time.Millisecond
		c.Clustering.ReplicaFetchTimeout = 5 * time.Second
		// the first server is the only Raft voter (the second one applies the metadata
		// log as a non-voter): the metadata leadership cannot move under machine load
		c.Clustering.RaftMaxQuorumSize = 1
	}
	if two {
		tuneRepl(cfg)
	}
	srv := vOneNodeServer(t, cfg)
	run := &vC11Run{t: t, srv: srv, all: []*Server{srv}, cfg: cfg, id: 0, cap: 2, cacheOn: true, pend: map[string]*vC11Pending{},
		failWait: 100 * time.Millisecond}
	defer func() {
		// (Server.Stop() can block for ever on a subscription loop that is stuck)
		done := make(chan struct{})
		go func() {
			for _, s := range run.all {
				s.Stop()
			}
			close(done)
		}()
		select {
		case <-done:
		case <-time.After(vC11Deadline):
			fmt.Fprintln(os.Stderr, "c11: the servers do not stop; giving up")
		}
	}()
	run.waitLeader()
	if two {
		cfgB := vJoinConfig(t, "b", cfg)
		tuneRepl(cfgB)
		srvB, err := RunServerWithConfig(cfgB)
		if err != nil {
			t.Fatalf("INCONCLUSIVE: second server did not start: %v", err)
		}
		run.all = append(run.all, srvB)
	}

	// size of one stored cursor entry (fixed-width names, values 1..127)
	ctx, cancel := context.WithTimeout(context.Background(), vC11Deadline)
	_, err := srv.api.SetCursor(ctx, &client.SetCursorRequest{Stream: run.stream(), Partition: 0, CursorId: "k1", Offset: 1})
	cancel()
	if err != nil {
		t.Fatalf("INCONCLUSIVE: probe SetCursor: %v", err)
	}
	fi, err := os.Stat(filepath.Join(cfg.DataDir, "streams", cursorsStream, "0", fmt.Sprintf("%020d.log", 0)))
	if err != nil || fi.Size() == 0 {
		t.Fatalf("INCONCLUSIVE: probe segment: %v", err)
	}
	entSize := fi.Size()

	for _, b := range sf.Behaviours {
		run.id = b.ID
		run.cap = int(vIntDef(b.Cfg, "cap", 2))
		run.cacheOn = vBool(b.Cfg, "cacheOn")
		run.pend = map[string]*vC11Pending{}
		run.unstall()
		// fresh cursors stream with segments of segCap entries
		run.cfg.CursorsStream.Partitions = 1
		run.segCap = vIntDef(b.Cfg, "segCap", 2)
		// the metadata leader (two servers: under load the Raft leadership may just be moving)
		ms := run.srv
		for deadline := time.Now().Add(vC11Deadline); len(run.all) > 1; time.Sleep(5 * time.Millisecond) {
			if run.all[0].IsLeader() || run.all[1].IsLeader() {
				break
			}
			if time.Now().After(deadline) {
				t.Fatalf("INCONCLUSIVE: behaviour %d: no metadata leader", b.ID)
			}
		}
		for _, s := range run.all {
			s.config.CursorsStream.Partitions = 1
			if len(run.all) > 1 {
				s.config.CursorsStream.ReplicationFactor = int32(len(run.all))
			}
			s.config.Streams.SegmentMaxBytes = run.segCap * entSize
			// number of goroutines a compaction scans the keys with (must not matter)
			s.config.Streams.CompactMaxGoroutines = int(vIntDef(b.Cfg, "g", 10))
			if s.IsLeader() {
				ms = s
			}
		}
		ctx, cancel := context.WithTimeout(context.Background(), vC11Deadline)
		st := ms.metadata.DeleteStream(ctx, &proto.DeleteStreamOp{Stream: cursorsStream})
		cancel()
		if st != nil {
			t.Fatalf("INCONCLUSIVE: delete cursors stream: %v", st.Err())
		}
		// (two servers: the second one may not have joined the cluster yet)
		for deadline := time.Now().Add(3 * vC11Deadline); ; time.Sleep(20 * time.Millisecond) {
			err := ms.cursors.Initialize()
			if err == nil {
				break
			}
			if len(run.all) < 2 || time.Now().After(deadline) {
				t.Fatalf("INCONCLUSIVE: re-create cursors stream: %v", err)
			}
		}
		run.waitLeader()
		run.tune()
		run.lastSt = vC11State{}
		tw.Emit(vC11Event{T: b.ID, A: "Open", Args: map[string]interface{}{"k": "", "c": "", "v": 0},
			St: run.state(), Obs: vC11Obs{A: "Open", Ret: -1}})
		for _, step := range b.Steps {
			tw.Emit(run.step(step))
		}
		run.releaseAll()
	}
}
