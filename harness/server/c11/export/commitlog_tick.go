//go:build verif

package commitlog

// Harness-only export for the C11 driver (package server), mapped into this package
// by the check's own overlay: the first half of a tick of the log's cleaner loop -
// the split check of the active segment (checkAndPerformSplit) - executed now instead
// of at a timer.  With old = true the segment age limit is 1 ns for the call, so
// that the real age test (time since the first write of the segment) finds any
// segment that was written to old enough; a full segment is rolled either way and
// an empty one never.

import "time"

func VerifSplitCheck(l CommitLog, old bool) (bool, error) {
	cl := l.(*commitLog)
	if old {
		age := cl.MaxSegmentAge
		cl.MaxSegmentAge = time.Nanosecond
		defer func() { cl.MaxSegmentAge = age }()
	}
	return cl.checkAndPerformSplit()
}
