//go:build verif

package server

// Lock-step replay of GroupLiveness.tla behaviours on a REAL two-server cluster
// (additional check X01: consumer-group liveness and coordinator failover).
//
// Every worker owns a cluster: server "a" (embedded NATS on a private port, the
// only Raft voter, hence always the metadata leader / controller), server "b" (a
// real second server that joined as a non-voter: it replicates and applies a's
// log, runs its own consumerGroup objects with their own liveness timers and
// forwards Join/Leave/Report requests and its expiry proposals to the controller)
// and a broker "c" that exists only in the Raft configuration (a candidate that
// never runs).  A behaviour gets a fresh group id.  The real API handlers
// (JoinConsumerGroup, LeaveConsumerGroup, FetchConsumerGroupAssignments,
// ReportConsumerGroupCoordinator) of the server named by the step are called; the
// real timers (Groups.ConsumerTimeout = Groups.CoordinatorTimeout = T) run.
//
// After every step server b is brought up to a's applied index and the abstract
// state is projected from the real objects of both servers: the group as each
// holds it, the members whose consumer.timer is set on each server, the
// controller's groupFailovers entry.  The expiry handler of every group object is
// wrapped only to RECORD its calls (server, member); it then runs the real one.
// The verdict is TLC's (Trace_GroupLiveness.tla); this file never decides.
//
// Time: for every step other than Wait/Restart the driver proves by the clock that
// no timer can have fired (less than 60% of T since the phase started: behaviour
// start, or the last heartbeat round of the previous Wait); otherwise the behaviour
// is re-executed with a fresh group.  Wait lets more than T pass (a canary timer
// armed after every other timer, plus T/2) while the members named "good" keep
// fetching their assignments the way the client does, with the gaps between their
// accepted heartbeats proven smaller than 80% of T.

import (
	"context"
	"encoding/json"
	"fmt"
	"os"
	"path/filepath"
	"runtime"
	"sort"
	"strconv"
	"strings"
	"sync"
	"sync/atomic"
	"testing"
	"time"

	"github.com/hashicorp/raft"
	client "github.com/liftbridge-io/liftbridge-api/v2/go"
	"google.golang.org/grpc/codes"
	"google.golang.org/grpc/status"
)

const (
	vX01Deadline = 20 * time.Second
	vX01Attempts = 5
	vX01Stream   = "x01s"
)

var (
	vX01T       = 300 * time.Millisecond
	vX01Brokers = []string{"a", "b", "c"}
	vX01Members = []string{"m1", "m2", "m3"}
)

var (
	vX01StatsMu sync.Mutex
	vX01Stats   = map[string][2]int64{}
)

func vX01Stat(kind string, d time.Duration) {
	vX01StatsMu.Lock()
	x := vX01Stats[kind]
	x[0]++
	x[1] += int64(d / time.Microsecond)
	vX01Stats[kind] = x
	vX01StatsMu.Unlock()
}

// vX01Fatal: infrastructure failure inside a worker goroutine (exit code != 0 is
// reported as inconclusive by the check)
func vX01Fatal(format string, v ...interface{}) {
	fmt.Printf("INCONCLUSIVE: "+format+"\n", v...)
	os.Exit(3)
}

func vX01GoID() uint64 {
	var buf [64]byte
	n := runtime.Stack(buf[:], false)
	s := strings.TrimPrefix(string(buf[:n]), "goroutine ")
	id, _ := strconv.ParseUint(s[:strings.IndexByte(s, ' ')], 10, 64)
	return id
}

// a report inside ReportGroupCoordinator, parked at the gate after its checks
type vX01Pend struct {
	M       string `json:"m"`
	C       string `json:"c"`
	E       int64  `json:"e"`
	parked  chan struct{}
	release chan struct{}
	done    chan error
}

var vX01Slots sync.Map // goroutine id -> *vX01Pend

func vX01Gate(name string) {
	if name != "metadata.report_group_coordinator.checked" {
		return
	}
	if v, ok := vX01Slots.Load(vX01GoID()); ok {
		slot := v.(*vX01Pend)
		close(slot.parked)
		<-slot.release
	}
}

type vX01Fire struct {
	srv, group, member string
}

// an expiry callback held before it proposes the removal (see DoWait with park)
type vX01Parked struct {
	srv, group, member string
	release            chan struct{}
	done               chan error
}

// vX01Listener remembers the index of the last command the server's FSM has applied
// (listeners are called at the end of Server.Apply)
type vX01Listener struct{ last uint64 }

func (l *vX01Listener) Receive(rl *RaftLog) { atomic.StoreUint64(&l.last, rl.Index) }

type vX01Cluster struct {
	t          *testing.T
	w          int
	a, b       *Server
	la, lb     *vX01Listener
	cfgA, cfgB *Config
	mu         sync.Mutex
	fires      []vX01Fire
	wrapped    map[*consumerGroup]bool
	inflight   int32
	parking    map[string]bool // group ids whose expiry callbacks are to be held
	parked     []*vX01Parked
	intent     string // file that says what this worker is doing (read when the process dies)
}

func (c *vX01Cluster) srv(id string) *Server {
	if id == "a" {
		return c.a
	}
	if id == "b" {
		return c.b
	}
	return nil
}

func vX01Config(cfg *Config, dir, id string) {
	cfg.DataDir = filepath.Join(storagePath, dir)
	cfg.Clustering.ServerID = id
	cfg.Clustering.RaftMaxQuorumSize = 1 // every joining server becomes a non-voter
	cfg.Groups.ConsumerTimeout = vX01T
	cfg.Groups.CoordinatorTimeout = vX01T
}

func vX01Start(t *testing.T, w int) *vX01Cluster {
	c := &vX01Cluster{t: t, w: w, wrapped: map[*consumerGroup]bool{}, parking: map[string]bool{}}
	c.cfgA = vOneNodeConfig(t, fmt.Sprintf("x01-%d-a", w))
	vX01Config(c.cfgA, fmt.Sprintf("x01-%d-a", w), "a")
	c.a = vOneNodeServer(t, c.cfgA)
	c.la = &vX01Listener{}
	c.a.AddRaftLogListener(c.la)
	c.cfgB = vJoinConfig(t, fmt.Sprintf("x01-%d-b", w), c.cfgA)
	vX01Config(c.cfgB, fmt.Sprintf("x01-%d-b", w), "b")
	b := New(c.cfgB)
	c.lb = &vX01Listener{}
	b.AddRaftLogListener(c.lb)
	if err := b.Start(); err != nil {
		t.Fatalf("INCONCLUSIVE: second server did not start: %v", err)
	}
	c.b = b
	deadline := time.Now().Add(60 * time.Second)
	for {
		ids, err := c.a.metadata.getClusterServerIDs()
		if err == nil && len(ids) == 2 {
			break
		}
		if time.Now().After(deadline) {
			t.Fatalf("INCONCLUSIVE: second server did not join: %v %v", ids, err)
		}
		time.Sleep(5 * time.Millisecond)
	}
	// broker c: configured, never running
	if err := c.a.getRaft().AddNonvoter(raft.ServerID("c"), raft.ServerAddress("c"), 0, vX01Deadline).Error(); err != nil {
		t.Fatalf("INCONCLUSIVE: add broker c: %v", err)
	}
	fut := c.a.getRaft().GetConfiguration()
	if err := fut.Error(); err != nil {
		t.Fatalf("INCONCLUSIVE: %v", err)
	}
	for _, s := range fut.Configuration().Servers {
		if (s.ID == "a") != (s.Suffrage == raft.Voter) {
			t.Fatalf("INCONCLUSIVE: unexpected Raft configuration %v", fut.Configuration().Servers)
		}
	}
	ctx, cancel := context.WithTimeout(context.Background(), vX01Deadline)
	defer cancel()
	if _, err := c.a.api.CreateStream(ctx, &client.CreateStreamRequest{Name: vX01Stream, Subject: vX01Stream,
		ReplicationFactor: 1, Partitions: 2}); err != nil {
		t.Fatalf("INCONCLUSIVE: create stream: %v", err)
	}
	if err := c.sync(); err != nil {
		t.Fatalf("INCONCLUSIVE: %v", err)
	}
	return c
}

// sync brings server b up to what server a has applied.  When a call returns, a's
// FSM has applied what the call proposed (the listener has seen it); a Raft barrier
// entry behind it carries the commit index to the follower at once; then b's FSM
// must have applied a's last command.  full = a's own pipeline is flushed first
// (after periods in which the servers proposed entries on their own).
func (c *vX01Cluster) syncx(full bool) error {
	t0 := time.Now()
	defer func() { vX01Stat("sync", time.Since(t0)) }()
	ra := c.a.getRaft()
	if ra == nil {
		return fmt.Errorf("no raft node")
	}
	if full {
		if err := ra.Barrier(vX01Deadline).Error(); err != nil {
			return fmt.Errorf("barrier: %v", err)
		}
	}
	idx := atomic.LoadUint64(&c.la.last)
	if atomic.LoadUint64(&c.lb.last) >= idx {
		return nil
	}
	if err := ra.Barrier(vX01Deadline).Error(); err != nil {
		return fmt.Errorf("barrier: %v", err)
	}
	deadline := time.Now().Add(vX01Deadline)
	for atomic.LoadUint64(&c.lb.last) < idx {
		if time.Now().After(deadline) {
			return fmt.Errorf("server b did not catch up (%d < %d)", atomic.LoadUint64(&c.lb.last), idx)
		}
		time.Sleep(50 * time.Microsecond)
	}
	return nil
}

func (c *vX01Cluster) sync() error { return c.syncx(true) }

func (c *vX01Cluster) group(s *Server, id string) *consumerGroup {
	if s == nil {
		return nil
	}
	return s.metadata.GetConsumerGroup(id)
}

// observe wraps the expiry handler of the group objects (only to record its calls)
func (c *vX01Cluster) observe(id string) {
	for _, sid := range []string{"a", "b"} {
		g := c.group(c.srv(sid), id)
		if g == nil {
			continue
		}
		c.mu.Lock()
		done := c.wrapped[g]
		c.wrapped[g] = true
		c.mu.Unlock()
		if done {
			continue
		}
		sid := sid
		g.mu.Lock()
		orig := g.memberExpiredHandler
		g.memberExpiredHandler = func(groupID, consumerID string) error {
			c.mu.Lock()
			c.fires = append(c.fires, vX01Fire{sid, groupID, consumerID})
			var pk *vX01Parked
			if c.parking[groupID] {
				pk = &vX01Parked{srv: sid, group: groupID, member: consumerID,
					release: make(chan struct{}), done: make(chan error, 1)}
				c.parked = append(c.parked, pk)
			}
			c.mu.Unlock()
			if pk != nil {
				<-pk.release
				err := orig(groupID, consumerID)
				pk.done <- err
				return err
			}
			atomic.AddInt32(&c.inflight, 1)
			defer atomic.AddInt32(&c.inflight, -1)
			return orig(groupID, consumerID)
		}
		g.mu.Unlock()
	}
}

func (c *vX01Cluster) parkedOf(id string) []*vX01Parked {
	c.mu.Lock()
	defer c.mu.Unlock()
	out := []*vX01Parked{}
	for _, p := range c.parked {
		if p.group == id {
			out = append(out, p)
		}
	}
	return out
}

func (c *vX01Cluster) unpark(p *vX01Parked) {
	c.mu.Lock()
	defer c.mu.Unlock()
	for i, q := range c.parked {
		if q == p {
			c.parked = append(append([]*vX01Parked{}, c.parked[:i]...), c.parked[i+1:]...)
			return
		}
	}
}

func (c *vX01Cluster) takeFires(id string) [][]string {
	c.mu.Lock()
	defer c.mu.Unlock()
	out := [][]string{}
	seen := map[string]bool{}
	rest := c.fires[:0]
	for _, f := range c.fires {
		if f.group != id {
			rest = append(rest, f)
			continue
		}
		k := f.srv + "/" + f.member
		if !seen[k] {
			seen[k] = true
			out = append(out, []string{f.srv, f.member})
		}
	}
	c.fires = rest
	sort.Slice(out, func(i, j int) bool { return out[i][0]+out[i][1] < out[j][0]+out[j][1] })
	return out
}

// ---- recorded state ---------------------------------------------------------

type vX01View struct {
	Exists  bool     `json:"exists"`
	Members []string `json:"members"`
	Coord   string   `json:"coord"`
	Epoch   int64    `json:"epoch"`
	Rec     bool     `json:"rec"`
}

type vX01Fo struct {
	On  bool     `json:"on"`
	Wit []string `json:"wit"`
}

type vX01State struct {
	Exists  bool                `json:"exists"`
	Members []string            `json:"members"`
	Coord   string              `json:"coord"`
	Epoch   int64               `json:"epoch"`
	Tmr     map[string][]string `json:"tmr"`
	Fo      vX01Fo              `json:"fo"`
	Pend    []vX01Pend          `json:"pend"`
	Pendx   [][]string          `json:"pendx"`
	Views   map[string]vX01View `json:"views"`
}

type vX01Obs struct {
	A     string     `json:"a"`
	Err   string     `json:"err"`
	Fired [][]string `json:"fired"`
	Acc   []string   `json:"acc"`
	Rej   []string   `json:"rej"`
	Asg   [][]interface{} `json:"asg"`
	Rc    string     `json:"rc"` // Join: the coordinator and epoch the client is told
	Re    int64      `json:"re"`
	Crash string     `json:"crash"`
}

type vX01Event struct {
	T    int                    `json:"t"`
	A    string                 `json:"a"`
	Args map[string]interface{} `json:"args"`
	St   vX01State              `json:"st"`
	Obs  vX01Obs                `json:"obs"`
}

type vX01Run struct {
	c          *vX01Cluster
	id         int
	gid        string
	pend       []*vX01Pend
	phaseStart time.Time
	doubt      bool // the clock could not rule out interference: repeat the behaviour
}

func (r *vX01Run) view(s *Server) (vX01View, []string) {
	v := vX01View{Members: []string{}, Coord: "none"}
	tm := []string{}
	g := r.c.group(s, r.gid)
	if g == nil {
		return v, tm
	}
	g.mu.RLock()
	defer g.mu.RUnlock()
	v.Exists = true
	v.Coord = g.coordinator
	v.Epoch = int64(g.epoch)
	v.Rec = g.recovered
	for id, m := range g.members {
		v.Members = append(v.Members, id)
		if m.timer != nil {
			tm = append(tm, id)
		}
	}
	sort.Strings(v.Members)
	sort.Strings(tm)
	return v, tm
}

func (r *vX01Run) state() vX01State {
	st := vX01State{Tmr: map[string][]string{}, Views: map[string]vX01View{}, Fo: vX01Fo{Wit: []string{}},
		Pend: []vX01Pend{}, Pendx: [][]string{}}
	for _, sid := range []string{"a", "b"} {
		v, tm := r.view(r.c.srv(sid))
		st.Views[sid] = v
		st.Tmr[sid] = tm
	}
	va := st.Views["a"]
	st.Exists, st.Members, st.Coord, st.Epoch = va.Exists, va.Members, va.Coord, va.Epoch
	if g := r.c.group(r.c.a, r.gid); g != nil {
		m := r.c.a.metadata
		m.consumerGroupsMu.RLock()
		f := m.groupFailovers[g]
		m.consumerGroupsMu.RUnlock()
		if f != nil {
			f.mu.Lock()
			st.Fo.On = true
			for w := range f.witnesses {
				st.Fo.Wit = append(st.Fo.Wit, w)
			}
			f.mu.Unlock()
			sort.Strings(st.Fo.Wit)
		}
	}
	for _, x := range r.pend {
		st.Pend = append(st.Pend, vX01Pend{M: x.M, C: x.C, E: x.E})
	}
	for _, x := range r.c.parkedOf(r.gid) {
		st.Pendx = append(st.Pendx, []string{x.srv, x.member})
	}
	sort.Slice(st.Pendx, func(i, j int) bool { return st.Pendx[i][0]+st.Pendx[i][1] < st.Pendx[j][0]+st.Pendx[j][1] })
	return st
}

func vX01ErrClass(err error) string {
	if err == nil {
		return ""
	}
	st, _ := status.FromError(err)
	msg := st.Message()
	switch {
	case st.Code() == codes.NotFound:
		return "nogroup"
	case strings.HasPrefix(msg, "No such consumer group"):
		return "nogroup"
	case msg == ErrConsumerAlreadyMember.Error():
		return "member"
	case msg == ErrConsumerNotMember.Error(), strings.Contains(msg, "is not a member of consumer group"):
		return "notmember"
	case msg == ErrBrokerNotCoordinator.Error():
		return "notcoord"
	case msg == ErrGroupEpoch.Error():
		return "epoch"
	case strings.Contains(msg, "no timer"):
		return "notimer"
	case strings.HasPrefix(msg, "Coordinator generation mismatch"):
		return "stale"
	case msg == "No group coordinator candidates":
		return "nocand"
	}
	return "other:" + st.Code().String() + ":" + msg
}

func (r *vX01Run) cur() (string, uint64, bool) {
	g := r.c.group(r.c.a, r.gid)
	if g == nil {
		return "none", 0, false
	}
	c, e := g.GetCoordinator()
	return c, e, true
}

func vX01OldEpoch(e uint64) uint64 {
	if e == 0 {
		return e + 2
	}
	return e - 1
}

func vX01OtherThan(x string) string {
	for _, b := range vX01Brokers {
		if b != x {
			return b
		}
	}
	return ""
}

func (r *vX01Run) epochOf(es string) uint64 {
	_, e, _ := r.cur()
	switch es {
	case "cur":
		return e
	case "old":
		return vX01OldEpoch(e)
	case "next":
		return e + 1
	}
	panic("unknown epoch selector " + es)
}

func (r *vX01Run) pairOf(ps string) (string, uint64) {
	c, e, _ := r.cur()
	switch ps {
	case "cur":
		return c, e
	case "sc":
		return vX01OtherThan(c), e
	case "old":
		return c, vX01OldEpoch(e)
	case "next":
		return c, e + 1
	}
	panic("unknown pair selector " + ps)
}

// prefer arranges the coordinator loads (the environment of a selection) at the
// controller: `least` is the least loaded broker, then pref, then the others.  For
// an election `least` is the CURRENT coordinator: a correct election (candidates =
// the other configured brokers) picks pref, one that forgets to exclude the reported
// coordinator re-elects it.
func (r *vX01Run) prefer(least, pref string) {
	m := r.c.a.metadata
	m.stats.Lock()
	for _, b := range vX01Brokers {
		m.stats.brokerCoordinatorLoad[b] = 7
	}
	if pref != "" && pref != "none" {
		m.stats.brokerCoordinatorLoad[pref] = 3
	}
	if least != "" && least != "none" {
		m.stats.brokerCoordinatorLoad[least] = 0
	}
	m.stats.Unlock()
}

func (r *vX01Run) heartbeat(s *Server, m string, e uint64) (err error) {
	ctx, cancel := context.WithTimeout(context.Background(), vX01Deadline)
	defer cancel()
	defer func() {
		if p := recover(); p != nil {
			err = fmt.Errorf("panic:%v", p)
		}
	}()
	_, err = r.fetch(ctx, s, m, e)
	return err
}

func (r *vX01Run) fetch(ctx context.Context, s *Server, m string, e uint64) ([]int32, error) {
	resp, err := s.api.FetchConsumerGroupAssignments(ctx, &client.FetchConsumerGroupAssignmentsRequest{
		GroupId: r.gid, ConsumerId: m, Epoch: e})
	if err != nil {
		return nil, err
	}
	parts := []int32{}
	for _, a := range resp.Assignments {
		if a.Stream == vX01Stream {
			parts = append(parts, a.Partitions...)
		}
	}
	return parts, nil
}

func (r *vX01Run) report(s *Server, m, c string, e uint64) error {
	ctx, cancel := context.WithTimeout(context.Background(), vX01Deadline)
	defer cancel()
	_, err := s.api.ReportConsumerGroupCoordinator(ctx, &client.ReportConsumerGroupCoordinatorRequest{
		GroupId: r.gid, ConsumerId: m, Coordinator: c, Epoch: e})
	return err
}

// keepalive plays what the members do while time passes (see DoWait); it returns
// when stop is closed.  acc collects members whose stale / misdirected heartbeat was
// accepted.
type vX01Keep struct {
	stop chan struct{}
	wg   sync.WaitGroup
	mu   sync.Mutex
	acc  map[string]bool
	rej  map[string]bool // well-behaved members that were refused (other than for a moved epoch)
}

func (r *vX01Run) keepalive(hb map[string]string) *vX01Keep {
	k := &vX01Keep{stop: make(chan struct{}), acc: map[string]bool{}, rej: map[string]bool{}}
	isMember := map[string]bool{}
	if g := r.c.group(r.c.a, r.gid); g != nil {
		for m := range g.GetMembers() {
			isMember[m] = true
		}
	}
	for m, mode := range hb {
		if mode == "none" || (mode == "good" && !isMember[m]) {
			continue // (a consumer that is not in the group has nothing to keep alive)
		}
		k.wg.Add(1)
		go func(m, mode string) {
			defer k.wg.Done()
			lastOK := r.phaseStart
			alive := true
			for {
				coord, e, ok := r.cur()
				if ok {
					switch mode {
					case "good":
						if s := r.c.srv(coord); s != nil {
							if g := r.c.group(s, r.gid); g != nil {
								_, e = g.GetCoordinator() // the coordinator's own epoch, as the client learns it
							}
							start := time.Now()
							err := r.heartbeat(s, m, e)
							for i := 0; i < 3 && vX01ErrClass(err) == "epoch"; i++ {
								// the group changed: the client refreshes the epoch and retries at once
								if g := r.c.group(s, r.gid); g != nil {
									_, e = g.GetCoordinator()
								}
								err = r.heartbeat(s, m, e)
							}
							// the answer to the first attempt after an accepted one must arrive before a
							// timer that the accepted one reset can have fired; otherwise the clock
							// cannot rule out that the driver itself was too slow
							if alive && time.Since(lastOK) > vX01T*8/10 {
								r.doubt = true
							}
							alive = err == nil
							if err == nil {
								lastOK = start
							} else {
								// a refusal is an observation; the member just keeps trying
								k.mu.Lock()
								k.rej[m] = true
								k.mu.Unlock()
							}
						}
					case "stale":
						if s := r.c.srv(coord); s != nil {
							if r.heartbeat(s, m, vX01OldEpoch(e)) == nil {
								k.mu.Lock()
								k.acc[m] = true
								k.mu.Unlock()
							}
						}
					case "wrong":
						other := "a"
						if coord == "a" {
							other = "b"
						}
						if r.heartbeat(r.c.srv(other), m, e) == nil {
							k.mu.Lock()
							k.acc[m] = true
							k.mu.Unlock()
						}
					}
				}
				select {
				case <-k.stop:
					return
				case <-time.After(vX01T / 5):
				}
			}
		}(m, mode)
	}
	return k
}

func (k *vX01Keep) end() ([]string, []string) {
	close(k.stop)
	k.wg.Wait()
	acc, rej := []string{}, []string{}
	for m := range k.acc {
		acc = append(acc, m)
	}
	for m := range k.rej {
		rej = append(rej, m)
	}
	sort.Strings(acc)
	sort.Strings(rej)
	return acc, rej
}

// vX01Probe spends d arming short timers one after the other and reports whether each
// callback started within a quarter of the timeout after it was due
func vX01Probe(d time.Duration) bool {
	end := time.Now().Add(d)
	ok := true
	for time.Now().Before(end) {
		due := time.Now().Add(10 * time.Millisecond)
		ch := make(chan time.Duration, 1)
		time.AfterFunc(10*time.Millisecond, func() { ch <- time.Since(due) })
		select {
		case late := <-ch:
			if late > vX01T/4 {
				ok = false
			}
		case <-time.After(vX01Deadline):
			return false
		}
	}
	return ok
}

// settle waits until no expiry handler is running
func (r *vX01Run) settle() {
	deadline := time.Now().Add(vX01Deadline)
	for atomic.LoadInt32(&r.c.inflight) != 0 && time.Now().Before(deadline) {
		time.Sleep(200 * time.Microsecond)
	}
}

// lastRound: the surviving well-behaved members fetch once more; the next phase
// (in which no timer may fire) starts with this round
func (r *vX01Run) lastRound(hb map[string]string) [][]interface{} {
	asg := [][]interface{}{}
	r.phaseStart = time.Now()
	coord, _, ok := r.cur()
	s := r.c.srv(coord)
	if !ok || s == nil {
		return asg
	}
	g := r.c.group(s, r.gid)
	if g == nil {
		return asg
	}
	ms := []string{}
	for m, mode := range hb {
		if mode == "good" && g.IsMember(m) {
			ms = append(ms, m)
		}
	}
	sort.Strings(ms)
	for _, m := range ms {
		ctx, cancel := context.WithTimeout(context.Background(), vX01Deadline)
		_, e := g.GetCoordinator()
		parts, err := r.fetch(ctx, s, m, e)
		cancel()
		if err == nil {
			for _, p := range parts {
				asg = append(asg, []interface{}{m, int(p)})
			}
		}
		// a refusal here shows in what TLC is given (no assignment for a member)
	}
	return asg
}

func (r *vX01Run) step(step map[string]interface{}) (ev vX01Event) {
	a := vStr(step, "a")
	args := map[string]interface{}{}
	obs := vX01Obs{A: a, Acc: []string{}, Rej: []string{}, Asg: [][]interface{}{}}
	long := false
	t0 := time.Now()
	defer func() { vX01Stat(a, time.Since(t0)) }()
	func() {
		defer func() {
			if p := recover(); p != nil {
				obs.Err = fmt.Sprintf("panic:%v", p)
			}
		}()
		ctx, cancel := context.WithTimeout(context.Background(), vX01Deadline)
		defer cancel()
		switch a {
		case "Join":
			srv, m, c0 := vStr(step, "srv"), vStr(step, "m"), vStrDef(step, "c0", "none")
			args["srv"], args["m"], args["c0"] = srv, m, c0
			r.prefer(c0, "none")
			resp, err := r.c.srv(srv).api.JoinConsumerGroup(ctx, &client.JoinConsumerGroupRequest{
				GroupId: r.gid, ConsumerId: m, Streams: []string{vX01Stream}})
			obs.Err = vX01ErrClass(err)
			if err == nil && resp != nil {
				obs.Rc, obs.Re = resp.Coordinator, int64(resp.Epoch)
			}
		case "Leave":
			srv, m := vStr(step, "srv"), vStr(step, "m")
			args["srv"], args["m"] = srv, m
			_, err := r.c.srv(srv).api.LeaveConsumerGroup(ctx, &client.LeaveConsumerGroupRequest{
				GroupId: r.gid, ConsumerId: m})
			obs.Err = vX01ErrClass(err)
		case "Heartbeat":
			s, m, es := vStr(step, "s"), vStr(step, "m"), vStr(step, "es")
			e := r.epochOf(es)
			args["s"], args["m"], args["es"], args["e"] = s, m, es, int64(e)
			obs.Err = vX01ErrClass(r.heartbeat(r.c.srv(s), m, e))
		case "Report":
			srv, m, ps, pref := vStr(step, "srv"), vStr(step, "m"), vStr(step, "ps"), vStrDef(step, "pref", "none")
			c, e := r.pairOf(ps)
			args["srv"], args["m"], args["ps"], args["c"], args["e"], args["pref"] = srv, m, ps, c, int64(e), pref
			cc, _, _ := r.cur()
			r.prefer(cc, pref)
			obs.Err = vX01ErrClass(r.report(r.c.srv(srv), m, c, e))
		case "ReportCheck":
			m, ps := vStr(step, "m"), vStr(step, "ps")
			c, e := r.pairOf(ps)
			args["m"], args["ps"], args["c"], args["e"] = m, ps, c, int64(e)
			slot := &vX01Pend{M: m, C: c, E: int64(e), parked: make(chan struct{}),
				release: make(chan struct{}), done: make(chan error, 1)}
			go func() {
				gid := vX01GoID()
				vX01Slots.Store(gid, slot)
				defer vX01Slots.Delete(gid)
				slot.done <- r.report(r.c.a, m, c, e)
			}()
			select {
			case <-slot.parked:
				r.pend = append(r.pend, slot)
			case err := <-slot.done:
				obs.Err = vX01ErrClass(err)
				if err == nil {
					obs.Err = "other:returned without reaching the gate"
				}
			case <-time.After(vX01Deadline):
				panic("report neither parked nor returned")
			}
		case "ReportApply":
			i, pref := int(vInt(step, "i")), vStrDef(step, "pref", "none")
			args["i"], args["pref"] = i, pref
			if i < 1 || i > len(r.pend) {
				obs.A, a = "Skip", "Skip"
				return
			}
			slot := r.pend[i-1]
			cc, _, _ := r.cur()
			r.prefer(cc, pref)
			close(slot.release)
			err := <-slot.done
			r.pend = append(append([]*vX01Pend{}, r.pend[:i-1]...), r.pend[i:]...)
			obs.Err = vX01ErrClass(err)
		case "Wait":
			long = true
			hb := map[string]string{}
			hbArg := map[string]interface{}{}
			raw, _ := step["hb"].(map[string]interface{})
			for _, m := range vX01Members {
				mode, _ := raw[m].(string)
				if mode == "" {
					mode = "none"
				}
				hb[m] = mode
				hbArg[m] = mode
			}
			args["hb"] = hbArg
			park := vBool(step, "park")
			args["park"] = park
			r.c.mu.Lock()
			r.c.parking[r.gid] = park
			r.c.mu.Unlock()
			fired := make(chan struct{})
			tw := time.Now()
			canary := time.AfterFunc(vX01T, func() { close(fired) })
			defer canary.Stop()
			k := r.keepalive(hb)
			select {
			case <-fired:
			case <-time.After(vX01Deadline):
				panic("canary did not fire")
			}
			if late := time.Since(tw.Add(vX01T)); late > vX01T/4 {
				r.doubt = true // the canary itself fired late: timers are not served in time right now
			}
			if d := time.Until(tw.Add(vX01T)); d > 0 {
				time.Sleep(d)
			}
			// every timer armed before the wait is due by now; give their callbacks half a
			// timeout, and prove by probe timers that callbacks are started promptly
			if !vX01Probe(vX01T / 2) {
				r.doubt = true
			}
			r.settle()
			obs.Acc, obs.Rej = k.end()
			r.settle()
			r.c.mu.Lock()
			delete(r.c.parking, r.gid)
			r.c.mu.Unlock()
			if err := r.c.sync(); err != nil {
				panic(err)
			}
			obs.Asg = r.lastRound(hb)
		case "ExpireApply":
			sid, m := vStr(step, "s"), vStr(step, "m")
			args["s"], args["m"] = sid, m
			var pk *vX01Parked
			for _, x := range r.c.parkedOf(r.gid) {
				if x.srv == sid && x.member == m {
					pk = x
				}
			}
			if pk == nil {
				obs.A, a = "Skip", "Skip"
				return
			}
			close(pk.release)
			var err error
			select {
			case err = <-pk.done:
			case <-time.After(vX01Deadline):
				panic("expiry callback did not return")
			}
			r.c.unpark(pk)
			if err != nil {
				switch {
				case strings.Contains(err.Error(), ErrConsumerNotMember.Error()):
					obs.Err = "notmember"
				case strings.Contains(err.Error(), ErrConsumerGroupNotFound.Error()):
					obs.Err = "nogroup"
				default:
					obs.Err = "other:" + err.Error()
				}
			}
			// the callback goes on after the proposal (it re-arms the timer when the
			// proposal failed): let it finish
			time.Sleep(3 * time.Millisecond)
		case "Lose":
			raft := r.c.a.getRaft()
			if err := r.c.a.leadershipLost(raft); err != nil {
				obs.Err = "other:" + err.Error()
				return
			}
			if err := r.c.a.leadershipAcquired(raft); err != nil {
				obs.Err = "other:" + err.Error()
			}
			// the controller subscribed to the propagation subject again: make sure the
			// NATS server knows before another server forwards a request
			r.c.a.nc.Flush()
		case "Restart":
			long = true
			args["s"] = "b"
			hb := map[string]string{}
			for _, m := range vX01Members {
				hb[m] = "good"
			}
			fired := make(chan struct{})
			tw := time.Now()
			canary := time.AfterFunc(vX01T, func() { close(fired) })
			defer canary.Stop()
			k := r.keepalive(hb) // the members go on fetching while the server is away
			err := r.c.restartB()
			if err == nil {
				// the step takes longer than the timeout in any case (the window of
				// coordinator reports at the controller expires)
				select {
				case <-fired:
				case <-time.After(vX01Deadline):
				}
				if d := time.Until(tw.Add(vX01T * 3 / 2)); d > 0 {
					time.Sleep(d)
				}
			}
			k.end()
			if err != nil {
				panic(err)
			}
			r.settle()
			if err := r.c.sync(); err != nil {
				panic(err)
			}
			r.lastRound(hb)
		default:
			panic("unknown action " + a)
		}
	}()
	if !long {
		if err := r.c.syncx(a == "Lose"); err != nil {
			vX01Fatal("%v", err)
		}
	}
	r.c.observe(r.gid)
	st := r.state()
	obs.Fired = r.c.takeFires(r.gid)
	if !long && time.Since(r.phaseStart) > vX01T*6/10 {
		r.doubt = true
	}
	return vX01Event{T: r.id, A: a, Args: args, St: st, Obs: obs}
}

func (c *vX01Cluster) restartB() error {
	t0 := time.Now()
	defer func() { vX01Stat("restartB", time.Since(t0)) }()
	if err := c.b.Stop(); err != nil {
		return fmt.Errorf("stop b: %v", err)
	}
	b := New(c.cfgB)
	lb := &vX01Listener{}
	b.AddRaftLogListener(lb)
	if err := b.Start(); err != nil {
		return fmt.Errorf("restart b: %v", err)
	}
	c.b, c.lb = b, lb
	deadline := time.Now().Add(60 * time.Second)
	for b.getRaft() == nil {
		if time.Now().After(deadline) {
			return fmt.Errorf("b has no raft node after its restart")
		}
		time.Sleep(time.Millisecond)
	}
	if err := c.sync(); err != nil {
		return err
	}
	// the replay ends with finishedRecovery (deferred in Server.Apply, i.e. just after
	// the listener saw the last replayed command): give it a moment; a group that
	// stays in recovery mode is recorded as it is
	grace := time.Now().Add(2 * time.Second)
	for time.Now().Before(grace) {
		rec := false
		for _, g := range b.metadata.GetConsumerGroups() {
			g.mu.RLock()
			rec = rec || g.recovered
			g.mu.RUnlock()
		}
		if !rec {
			break
		}
		time.Sleep(200 * time.Microsecond)
	}
	return nil
}

func (r *vX01Run) cleanup() {
	for _, slot := range r.pend {
		close(slot.release)
		<-slot.done
	}
	r.pend = nil
	for _, pk := range r.c.parkedOf(r.gid) {
		close(pk.release)
		<-pk.done
		r.c.unpark(pk)
	}
	if g := r.c.group(r.c.a, r.gid); g != nil {
		for m := range g.GetMembers() {
			ctx, cancel := context.WithTimeout(context.Background(), vX01Deadline)
			r.c.a.api.LeaveConsumerGroup(ctx, &client.LeaveConsumerGroupRequest{GroupId: r.gid, ConsumerId: m})
			cancel()
		}
	}
	r.settle()
	if err := r.c.sync(); err != nil {
		vX01Fatal("%v", err)
	}
	r.c.takeFires(r.gid)
}

// noteIntent writes down what this worker is about to do: when a server's panic
// kills the process, the check reads the events recorded so far and the step in
// flight from here (the death is then the observation of that step)
func (c *vX01Cluster) noteIntent(id int, evs []vX01Event, step map[string]interface{}) {
	if c.intent == "" {
		return
	}
	b, err := json.Marshal(map[string]interface{}{"t": id, "events": evs, "step": step})
	if err != nil {
		return
	}
	os.WriteFile(c.intent, b, 0o644)
}

func vX01Behaviour(c *vX01Cluster, b vBehaviour) ([]vX01Event, bool) {
	for attempt := 1; attempt <= vX01Attempts; attempt++ {
		run := &vX01Run{c: c, id: b.ID, gid: fmt.Sprintf("x01-%d-%d", b.ID, attempt)}
		run.phaseStart = time.Now()
		evs := []vX01Event{{T: b.ID, A: "Open", Args: map[string]interface{}{}, St: run.state(),
			Obs: vX01Obs{A: "Open", Fired: [][]string{}, Acc: []string{}, Rej: []string{}, Asg: [][]interface{}{}}}}
		for _, step := range b.Steps {
			c.noteIntent(b.ID, evs, step)
			evs = append(evs, run.step(step))
			if run.doubt {
				break
			}
		}
		if !run.doubt {
			// expiries still in flight reach the controller now (as recorded steps)
			for _, pk := range c.parkedOf(run.gid) {
				step := map[string]interface{}{"a": "ExpireApply", "s": pk.srv, "m": pk.member}
				c.noteIntent(b.ID, evs, step)
				evs = append(evs, run.step(step))
			}
		}
		tc := time.Now()
		c.noteIntent(b.ID, nil, map[string]interface{}{"a": "cleanup"})
		run.cleanup()
		vX01Stat("cleanup", time.Since(tc))
		if !run.doubt {
			return evs, true
		}
		vX01Stat("retry", 0)
	}
	return nil, false
}

func TestVerifGroupLiveness(t *testing.T) {
	sf := vLoadStimuli(t)
	tw := vOpenTrace(t)
	defer tw.Close()
	defer os.RemoveAll(storagePath)
	if v := os.Getenv("VERIF_X01_TIMEOUT_MS"); v != "" {
		var ms int
		fmt.Sscanf(v, "%d", &ms)
		if ms > 0 {
			vX01T = time.Duration(ms) * time.Millisecond
		}
	}
	workers := 3
	if v := os.Getenv("VERIF_WORKERS"); v != "" {
		fmt.Sscanf(v, "%d", &workers)
	}
	if workers > len(sf.Behaviours) {
		workers = len(sf.Behaviours)
	}
	if workers < 1 {
		workers = 1
	}
	VerifGateHook = vX01Gate
	defer func() { VerifGateHook = nil }()
	clusters := make([]*vX01Cluster, workers)
	for i := range clusters {
		clusters[i] = vX01Start(t, i)
		clusters[i].intent = fmt.Sprintf("%s.intent.%d", os.Getenv("VERIF_TRACE_OUT"), i)
	}
	defer func() {
		for _, c := range clusters {
			c.b.Stop()
			c.a.Stop()
		}
	}()

	// the events of a finished behaviour are written at once (a later death of the
	// process must not take them along)
	var emitMu sync.Mutex
	nd := int32(0)
	var wg sync.WaitGroup
	for w := 0; w < workers; w++ {
		wg.Add(1)
		go func(w int) {
			defer wg.Done()
			for i := w; i < len(sf.Behaviours); i += workers {
				evs, ok := vX01Behaviour(clusters[w], sf.Behaviours[i])
				if !ok {
					atomic.AddInt32(&nd, 1)
					continue
				}
				emitMu.Lock()
				for _, ev := range evs {
					tw.Emit(ev)
				}
				tw.w.Flush()
				emitMu.Unlock()
			}
			os.Remove(clusters[w].intent)
		}(w)
	}
	wg.Wait()
	fmt.Printf("VERIF-X01 behaviours=%d dropped_for_timing=%d timeout_ms=%d\n", len(sf.Behaviours), nd,
		vX01T/time.Millisecond)
	for k, v := range vX01Stats {
		fmt.Printf("VERIF-X01-STAT %s n=%d total_ms=%d avg_us=%d\n", k, v[0], v[1]/1000, v[1]/(v[0]+1))
	}
}
