//go:build verif

package server

// X07 - configuration precedence (spec/ConfigPrec.tla).
//
// For every behaviour the driver writes a real YAML configuration file from the
// stimulus, loads it with the real NewConfig, creates streams with the overrides of
// the stimulus and records what the real partition objects / their commit logs /
// their cleaners run with.  Two levels:
//
//   unit  an un-started Server (New(cfg)); getStreamConfig(request) -> the stored
//         CreateStreamOp goes through its protobuf encoding -> Server.newPartition /
//         replacePartition (what metadataAPI.addPartition / resume call)
//   live  a one-node server started from the file alone (the infrastructure keys are
//         in the same file), CreateStream / PauseStream / resume through the API
//         object, restarts (Raft log replay or snapshot restore) over the same data
//         directory, the file edited between restarts
//
// The driver never judges: every line carries the inputs (file, requested
// overrides) and the projections of the real objects; TLC evaluates P_* and Do*.

import (
	"context"
	"fmt"
	"os"
	"path/filepath"
	"reflect"
	"sort"
	"strings"
	"testing"
	"time"

	client "github.com/liftbridge-io/liftbridge-api/v2/go"
	proto "github.com/liftbridge-io/liftbridge/server/protocol"
)

const vX07Abs = int64(-9)

var vX07Keys = []string{"rbytes", "rmsgs", "rage", "clean", "sbytes", "sage", "compact", "cgor",
	"apause", "adis", "minisr", "occ", "enc"}

// setting -> (section, key, kind) in the configuration file
var vX07File = map[string][3]string{
	"rbytes":  {"streams", "retention.max.bytes", "int"},
	"rmsgs":   {"streams", "retention.max.messages", "int"},
	"rage":    {"streams", "retention.max.age", "dur"},
	"clean":   {"streams", "cleaner.interval", "dur"},
	"sbytes":  {"streams", "segment.max.bytes", "int"},
	"sage":    {"streams", "segment.max.age", "dur"},
	"compact": {"streams", "compact.enabled", "bool"},
	"cgor":    {"streams", "compact.max.goroutines", "int"},
	"apause":  {"streams", "auto.pause.time", "dur"},
	"adis":    {"streams", "auto.pause.disable.if.subscribers", "bool"},
	"minisr":  {"clustering", "min.insync.replicas", "int"},
	"occ":     {"streams", "concurrency.control", "bool"},
	"enc":     {"streams", "encryption", "bool"},
}

type vX07Map map[string]int64

func vX07AllAbs() vX07Map {
	m := vX07Map{}
	for _, k := range vX07Keys {
		m[k] = vX07Abs
	}
	return m
}

func vX07NoOpt() vX07Map {
	return vX07Map{"rbytes": vX07Abs, "rmsgs": vX07Abs, "rage": vX07Abs, "cgor": vX07Abs}
}

// vX07In reads a {setting: value} object of the stimulus (missing = absent)
func vX07In(v interface{}) vX07Map {
	m := vX07AllAbs()
	if mm, ok := v.(map[string]interface{}); ok {
		for k, x := range mm {
			m[k] = int64(x.(float64))
		}
	}
	return m
}

type vX07State struct {
	HasFile bool      `json:"hasFile"`
	File    vX07Map   `json:"file"`
	Srv     vX07Map   `json:"srv"`
	Ex      []string  `json:"ex"`
	Req     []vX07Map `json:"req"`
	Scfg    []vX07Map `json:"scfg"`
	Eff     []vX07Map `json:"eff"`
	Opt     []vX07Map `json:"opt"`
}

type vX07Event struct {
	T     int                    `json:"t"`
	A     string                 `json:"a"`
	Level string                 `json:"level"`
	Args  map[string]interface{} `json:"args"`
	St    vX07State              `json:"st"`
	Err   string                 `json:"err"`
}

func vX07Ms(d time.Duration) int64 { return int64(d / time.Millisecond) }

func vX07B(b bool) int64 {
	if b {
		return 1
	}
	return 0
}

// ---- the configuration file ---------------------------------------------------------------

func vX07Dur(ms int64, spell int) string {
	if ms == 0 {
		return []string{"0s", "0", "0ms"}[spell%3]
	}
	if spell%2 == 1 {
		switch {
		case ms%3600000 == 0:
			return fmt.Sprintf("%dh", ms/3600000)
		case ms%60000 == 0:
			return fmt.Sprintf("%dm", ms/60000)
		case ms%1000 == 0:
			return fmt.Sprintf("%ds", ms/1000)
		}
	}
	return fmt.Sprintf("%dms", ms)
}

func vX07Yaml(file vX07Map, spell int, infra map[string][]string) string {
	sections := map[string][]string{}
	for sec, lines := range infra {
		sections[sec] = append(sections[sec], lines...)
	}
	for _, k := range vX07Keys {
		v := file[k]
		if v == vX07Abs {
			continue
		}
		f := vX07File[k]
		var val string
		switch f[2] {
		case "int":
			val = fmt.Sprintf("%d", v)
		case "dur":
			val = vX07Dur(v, spell)
		default:
			val = map[bool]string{true: "true", false: "false"}[v != 0]
		}
		sections[f[0]] = append(sections[f[0]], fmt.Sprintf("%s: %s", f[1], val))
	}
	names := make([]string, 0, len(sections))
	for s := range sections {
		names = append(names, s)
	}
	sort.Strings(names)
	var sb strings.Builder
	for _, s := range names {
		if s == "" {
			for _, l := range sections[s] {
				sb.WriteString(l + "\n")
			}
			continue
		}
		sb.WriteString(s + ":\n")
		for _, l := range sections[s] {
			sb.WriteString("  " + l + "\n")
		}
	}
	return sb.String()
}

// ---- projections of the real objects --------------------------------------------------------

func vX07Srv(c *Config) vX07Map {
	if c == nil {
		return vX07AllAbs()
	}
	s := c.Streams
	return vX07Map{"rbytes": s.RetentionMaxBytes, "rmsgs": s.RetentionMaxMessages, "rage": vX07Ms(s.RetentionMaxAge),
		"clean": vX07Ms(s.CleanerInterval), "sbytes": s.SegmentMaxBytes, "sage": vX07Ms(s.SegmentMaxAge),
		"compact": vX07B(s.Compact), "cgor": int64(s.CompactMaxGoroutines), "apause": vX07Ms(s.AutoPauseTime),
		"adis": vX07B(s.AutoPauseDisableIfSubscribers), "minisr": int64(c.Clustering.MinISR),
		"occ": vX07B(s.ConcurrencyControl), "enc": vX07B(s.Encryption)}
}

func vX07Scfg(c *proto.StreamConfig) vX07Map {
	m := vX07AllAbs()
	if c == nil {
		return m
	}
	i64 := func(k string, v *proto.NullableInt64) {
		if v != nil {
			m[k] = v.Value
		}
	}
	i32 := func(k string, v *proto.NullableInt32) {
		if v != nil {
			m[k] = int64(v.Value)
		}
	}
	bl := func(k string, v *proto.NullableBool) {
		if v != nil {
			m[k] = vX07B(v.Value)
		}
	}
	i64("rbytes", c.RetentionMaxBytes)
	i64("rmsgs", c.RetentionMaxMessages)
	i64("rage", c.RetentionMaxAge)
	i64("clean", c.CleanerInterval)
	i64("sbytes", c.SegmentMaxBytes)
	i64("sage", c.SegmentMaxAge)
	bl("compact", c.CompactEnabled)
	i32("cgor", c.CompactMaxGoroutines)
	i64("apause", c.AutoPauseTime)
	bl("adis", c.AutoPauseDisableIfSubscribers)
	i32("minisr", c.MinIsr)
	bl("occ", c.OptimisticConcurrencyControl)
	bl("enc", c.Encryption)
	return m
}

// vX07Part reads what the real partition, its commit log and the log's cleaners hold
// (read-only reflection for the unexported commit-log type; nothing is modified).
func vX07Part(p *partition) (eff, opt vX07Map, err string) {
	eff, opt = vX07AllAbs(), vX07NoOpt()
	defer func() {
		if x := recover(); x != nil {
			err = fmt.Sprintf("projection panic: %v", x)
		}
	}()
	l := reflect.ValueOf(p.log).Elem()
	o := l.FieldByName("Options")
	dc := l.FieldByName("deleteCleaner").Elem().FieldByName("Retention")
	cc := l.FieldByName("compactCleaner").Elem()
	p.mu.RLock()
	defer p.mu.RUnlock()
	eff = vX07Map{
		"rbytes":  dc.FieldByName("Bytes").Int(),
		"rmsgs":   dc.FieldByName("Messages").Int(),
		"rage":    dc.FieldByName("Age").Int() / int64(time.Millisecond),
		"clean":   o.FieldByName("CleanerInterval").Int() / int64(time.Millisecond),
		"sbytes":  o.FieldByName("MaxSegmentBytes").Int(),
		"sage":    o.FieldByName("MaxSegmentAge").Int() / int64(time.Millisecond),
		"compact": vX07B(o.FieldByName("Compact").Bool()),
		"cgor":    cc.FieldByName("MaxGoroutines").Int(),
		"apause":  vX07Ms(p.autoPauseTime),
		"adis":    vX07B(p.autoPauseDisableIfSubscribers),
		"minisr":  int64(p.minISR),
		"occ":     vX07B(o.FieldByName("ConcurrencyControl").Bool()),
		"enc":     vX07B(p.encryptionHandler != nil),
	}
	opt = vX07Map{
		"rbytes": o.FieldByName("MaxLogBytes").Int(),
		"rmsgs":  o.FieldByName("MaxLogMessages").Int(),
		"rage":   o.FieldByName("MaxLogAge").Int() / int64(time.Millisecond),
		"cgor":   o.FieldByName("CompactMaxGoroutines").Int(),
	}
	return
}

// ---- the request ------------------------------------------------------------------------------

func vX07Request(name string, ovr vX07Map) *client.CreateStreamRequest {
	req := &client.CreateStreamRequest{Name: name, Subject: name, ReplicationFactor: 1, Partitions: 1}
	i64 := func(k string) *client.NullableInt64 {
		if ovr[k] == vX07Abs {
			return nil
		}
		return &client.NullableInt64{Value: ovr[k]}
	}
	i32 := func(k string) *client.NullableInt32 {
		if ovr[k] == vX07Abs {
			return nil
		}
		return &client.NullableInt32{Value: int32(ovr[k])}
	}
	bl := func(k string) *client.NullableBool {
		if ovr[k] == vX07Abs {
			return nil
		}
		return &client.NullableBool{Value: ovr[k] != 0}
	}
	req.RetentionMaxBytes = i64("rbytes")
	req.RetentionMaxMessages = i64("rmsgs")
	req.RetentionMaxAge = i64("rage")
	req.CleanerInterval = i64("clean")
	req.SegmentMaxBytes = i64("sbytes")
	req.SegmentMaxAge = i64("sage")
	req.CompactEnabled = bl("compact")
	req.CompactMaxGoroutines = i32("cgor")
	req.AutoPauseTime = i64("apause")
	req.AutoPauseDisableIfSubscribers = bl("adis")
	req.MinIsr = i32("minisr")
	req.OptimisticConcurrencyControl = bl("occ")
	req.Encryption = bl("enc")
	return req
}

// ---- one behaviour ------------------------------------------------------------------------------

type vX07Run struct {
	t       *testing.T
	id      int
	level   string
	dir     string // private directory of the behaviour
	path    string // the configuration file
	hasFile bool
	file    vX07Map
	spell   int
	port    int
	cfg     *Config
	srv     *Server
	req     [2]vX07Map
	made    [2]bool
	// unit level only
	stored [2]*proto.Stream
	parts  [2]*partition
}

func (r *vX07Run) name(s int) string { return fmt.Sprintf("x07-%d-s%d", r.id, s) }

func (r *vX07Run) writeFile() {
	infra := map[string][]string{}
	if r.level == "live" {
		natsConf := filepath.Join(r.dir, "nats.conf")
		if err := os.WriteFile(natsConf, []byte(fmt.Sprintf("host: 127.0.0.1\nport: %d\n", r.port)), 0o644); err != nil {
			r.t.Fatalf("INCONCLUSIVE: %v", err)
		}
		infra[""] = []string{"port: 0", "data.dir: " + filepath.Join(r.dir, "data")}
		infra["nats"] = []string{"embedded.config: " + natsConf, fmt.Sprintf("servers: [\"nats://127.0.0.1:%d\"]", r.port)}
		infra["clustering"] = []string{"server.id: x07", "raft.bootstrap.seed: true", "raft.snapshot.retain: 1"}
		infra["telemetry"] = []string{"enabled: false"}
	} else {
		infra[""] = []string{"data.dir: " + filepath.Join(r.dir, "data")}
	}
	if err := os.WriteFile(r.path, []byte(vX07Yaml(r.file, r.spell, infra)), 0o644); err != nil {
		r.t.Fatalf("INCONCLUSIVE: %v", err)
	}
}

// load: the real NewConfig; without a file (unit level only) the data directory has to be given
// programmatically
func (r *vX07Run) load() (err string) {
	defer func() {
		if x := recover(); x != nil {
			err = fmt.Sprintf("panic: %v", x)
		}
	}()
	var (
		c *Config
		e error
	)
	if r.hasFile {
		r.writeFile()
		c, e = NewConfig(r.path)
	} else {
		c, e = NewConfig("")
		if e == nil {
			c.DataDir = filepath.Join(r.dir, "data")
		}
	}
	if e != nil {
		return "error: " + e.Error()
	}
	c.LogSilent = true
	r.cfg = c
	return ""
}

func (r *vX07Run) start() string {
	if r.level != "live" {
		r.srv = New(r.cfg)
		return ""
	}
	srv, err := RunServerWithConfig(r.cfg)
	if err != nil {
		return "error: start: " + err.Error()
	}
	r.srv = srv
	deadline := time.Now().Add(40 * time.Second)
	for !(srv.IsRunning() && srv.getRaft() != nil && srv.IsLeader()) {
		if time.Now().After(deadline) {
			r.t.Fatalf("INCONCLUSIVE: server did not become metadata leader")
		}
		time.Sleep(2 * time.Millisecond)
	}
	if err := srv.getRaft().Barrier(40 * time.Second).Error(); err != nil {
		r.t.Fatalf("INCONCLUSIVE: barrier: %v", err)
	}
	return ""
}

func (r *vX07Run) stop() {
	if r.level != "live" {
		for i, p := range r.parts {
			if p != nil {
				p.Close()
				r.parts[i] = nil
			}
		}
		r.srv = nil
		return
	}
	if r.srv == nil {
		return
	}
	done := make(chan error, 1)
	go func() { done <- r.srv.Stop() }()
	select {
	case err := <-done:
		if err != nil {
			r.t.Fatalf("INCONCLUSIVE: stop: %v", err)
		}
	case <-time.After(60 * time.Second):
		r.t.Fatalf("INCONCLUSIVE: Server.Stop did not return within 60 s")
	}
	r.srv = nil
}

func (r *vX07Run) part(s int) *partition {
	if r.level != "live" {
		return r.parts[s]
	}
	if r.srv == nil {
		return nil
	}
	st := r.srv.metadata.GetStream(r.name(s + 1))
	if st == nil {
		return nil
	}
	return st.GetPartition(0)
}

func (r *vX07Run) state() (st vX07State, err string) {
	st = vX07State{HasFile: r.hasFile, File: r.file, Srv: vX07AllAbs()}
	if r.srv != nil {
		st.Srv = vX07Srv(r.srv.config)
	} else if r.cfg != nil {
		st.Srv = vX07Srv(r.cfg)
	}
	for s := 0; s < 2; s++ {
		ex, req, scfg, eff, opt := "no", vX07AllAbs(), vX07AllAbs(), vX07AllAbs(), vX07NoOpt()
		if r.made[s] {
			req = r.req[s]
		}
		var p *partition
		if r.level == "live" {
			if r.srv != nil {
				if stream := r.srv.metadata.GetStream(r.name(s + 1)); stream != nil {
					scfg = vX07Scfg(stream.GetConfig())
					p = stream.GetPartition(0)
				}
			}
		} else if r.stored[s] != nil {
			scfg = vX07Scfg(r.stored[s].Config)
			p = r.parts[s]
		}
		if p != nil {
			ex = "open"
			var e string
			eff, opt, e = vX07Part(p)
			if e != "" {
				err = e
			}
		}
		st.Ex = append(st.Ex, ex)
		st.Req = append(st.Req, req)
		st.Scfg = append(st.Scfg, scfg)
		st.Eff = append(st.Eff, eff)
		st.Opt = append(st.Opt, opt)
	}
	return
}

func (r *vX07Run) create(s int, ovr vX07Map) (err string) {
	defer func() {
		if x := recover(); x != nil {
			err = fmt.Sprintf("panic: %v", x)
		}
	}()
	r.req[s] = ovr
	r.made[s] = true
	req := vX07Request(r.name(s+1), ovr)
	if r.level == "live" {
		ctx, cancel := context.WithTimeout(context.Background(), 30*time.Second)
		defer cancel()
		if _, e := r.srv.api.CreateStream(ctx, req); e != nil {
			if ctx.Err() != nil {
				r.t.Fatalf("INCONCLUSIVE: CreateStream timed out")
			}
			return "error: " + e.Error()
		}
		return ""
	}
	// unit: what CreateStream builds, through the protobuf encoding of the Raft log entry
	pp := &proto.Partition{Subject: req.Subject, Stream: req.Name, ReplicationFactor: 1, Id: 0,
		Replicas: []string{"x07"}, Isr: []string{"x07"}, Leader: "x07"}
	op := &proto.CreateStreamOp{Stream: &proto.Stream{Name: req.Name, Subject: req.Subject,
		Partitions: []*proto.Partition{pp}, Config: getStreamConfig(req)}}
	raw, e := op.Marshal()
	if e != nil {
		return "error: marshal: " + e.Error()
	}
	back := &proto.CreateStreamOp{}
	if e := back.Unmarshal(raw); e != nil {
		return "error: unmarshal: " + e.Error()
	}
	r.stored[s] = back.Stream
	p, e := r.srv.newPartition(back.Stream.Partitions[0], false, back.Stream.GetConfig())
	if e != nil {
		return "error: " + e.Error()
	}
	r.parts[s] = p
	return ""
}

func (r *vX07Run) reopenUnit() string {
	for s := 0; s < 2; s++ {
		if r.stored[s] == nil {
			continue
		}
		p, e := r.srv.newPartition(r.stored[s].Partitions[0], true, r.stored[s].GetConfig())
		if e != nil {
			return "error: " + e.Error()
		}
		r.parts[s] = p
	}
	return ""
}

// restart: stop, load the file again (as a new process would), start over the same data directory
func (r *vX07Run) restart(snap bool) (err string) {
	defer func() {
		if x := recover(); x != nil {
			err = fmt.Sprintf("panic: %v", x)
		}
	}()
	if r.level == "live" && snap {
		if e := r.srv.getRaft().Snapshot().Error(); e != nil {
			r.t.Fatalf("INCONCLUSIVE: snapshot: %v", e)
		}
	}
	r.stop()
	if e := r.load(); e != "" {
		return e
	}
	if e := r.start(); e != "" {
		return e
	}
	if r.level != "live" {
		return r.reopenUnit()
	}
	// the recovered streams are there when the replay / restore has finished (bounded wait)
	deadline := time.Now().Add(30 * time.Second)
	for s := 0; s < 2; s++ {
		for r.made[s] && r.part(s) == nil && time.Now().Before(deadline) {
			time.Sleep(2 * time.Millisecond)
		}
	}
	return ""
}

func (r *vX07Run) pauseResume(s int) (err string) {
	defer func() {
		if x := recover(); x != nil {
			err = fmt.Sprintf("panic: %v", x)
		}
	}()
	if r.level != "live" {
		old := r.parts[s]
		if old == nil {
			return "error: no partition"
		}
		if e := old.Pause(); e != nil {
			return "error: " + e.Error()
		}
		p, e := r.srv.replacePartition(old, false, r.stored[s].GetConfig())
		if e != nil {
			return "error: " + e.Error()
		}
		r.parts[s] = p
		return ""
	}
	ctx, cancel := context.WithTimeout(context.Background(), 30*time.Second)
	defer cancel()
	if _, e := r.srv.api.PauseStream(ctx, &client.PauseStreamRequest{Name: r.name(s + 1)}); e != nil {
		if ctx.Err() != nil {
			r.t.Fatalf("INCONCLUSIVE: PauseStream timed out")
		}
		return "error: pause: " + e.Error()
	}
	if e := r.srv.api.resumeStream(ctx, r.name(s+1), 0); e != nil {
		if ctx.Err() != nil {
			r.t.Fatalf("INCONCLUSIVE: resume timed out")
		}
		return "error: resume: " + e.Error()
	}
	return ""
}

func TestVerifX07(t *testing.T) {
	sf := vLoadStimuli(t)
	tw := vOpenTrace(t)
	defer tw.Close()
	os.Setenv("LIFTBRIDGE_ENCRYPTION_KEY", "0123456789abcdef0123456789abcdef")
	base, err := os.MkdirTemp("", "x07-")
	if err != nil {
		t.Fatalf("INCONCLUSIVE: %v", err)
	}
	// A closed commit log's checkpoint goroutine may run once more when its ticker and the close coincide (it
	// panics if the directory is gone): directories are removed with a delay of two checkpoint intervals, the
	// rest is removed by the runner together with TMPDIR after the process has ended.
	type vOld struct {
		dir string
		at  time.Time
	}
	var old []vOld

	for _, b := range sf.Behaviours {
		r := &vX07Run{t: t, id: b.ID, level: vStrDef(b.Cfg, "level", "unit"), hasFile: vBool(b.Cfg, "hasFile"),
			file: vX07In(b.Cfg["file"]), spell: int(vIntDef(b.Cfg, "spell", 0))}
		r.dir = filepath.Join(base, fmt.Sprintf("b%d", b.ID))
		if err := os.MkdirAll(r.dir, 0o755); err != nil {
			t.Fatalf("INCONCLUSIVE: %v", err)
		}
		r.path = filepath.Join(r.dir, "liftbridge.yaml")
		if r.level == "live" {
			r.port = vFreePort(t)
		}
		emit := func(a string, args map[string]interface{}, e string) {
			st, perr := r.state()
			if e == "" {
				e = perr
			}
			tw.Emit(vX07Event{T: b.ID, A: a, Level: r.level, Args: args, St: st, Err: e})
		}
		emit("Open", map[string]interface{}{}, "")
		e := r.load()
		if e == "" {
			e = r.start()
		}
		emit("Load", map[string]interface{}{"hasFile": r.hasFile, "file": r.file}, e)
		if e == "" {
			for _, step := range b.Steps {
				a := vStr(step, "a")
				var res string
				args := map[string]interface{}{}
				switch a {
				case "Create":
					s := int(vInt(step, "s"))
					ovr := vX07In(step["ovr"])
					args["s"], args["ovr"] = s, ovr
					res = r.create(s-1, ovr)
				case "Restart":
					args["snap"] = vBool(step, "snap")
					res = r.restart(vBool(step, "snap"))
				case "Change":
					r.file = vX07In(step["file"])
					args["file"], args["snap"] = r.file, vBool(step, "snap")
					res = r.restart(vBool(step, "snap"))
				case "PauseResume":
					s := int(vInt(step, "s"))
					args["s"] = s
					res = r.pauseResume(s - 1)
				default:
					t.Fatalf("INCONCLUSIVE: unknown step %q", a)
				}
				emit(a, args, res)
				if res != "" && r.srv == nil {
					break // the server did not come back: nothing further can be asked of it
				}
			}
		}
		r.stop()
		old = append(old, vOld{r.dir, time.Now()})
		for len(old) > 0 && time.Since(old[0].at) > 12*time.Second {
			os.RemoveAll(old[0].dir)
			old = old[1:]
		}
	}
}
