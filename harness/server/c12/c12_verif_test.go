//go:build verif

package server

// C12, direct binding: behaviours of spec/Groups.tla replayed on directly
// constructed consumerGroup values (server/groups.go), one per model server.
// Every step is an intent; it is executed against whatever state the real
// groups are in, and one ndjson line with the arguments, the results and the
// projected group state of every server is written.  TLC (Trace_Groups.tla)
// takes the verdict.
//
// The thin glue that metadata.go puts around a group (group map, "last member
// removes the group", idempotency check of the coordinator change, the
// announcement of a deleted stream within its apply) is played by this driver; the
// same behaviours run through the real glue in the Server.apply binding
// (TestVerifGroupsFSM, harness/server/c06).

import (
	"fmt"
	"testing"
	"time"

	"github.com/liftbridge-io/liftbridge/server/logger"
	proto "github.com/liftbridge-io/liftbridge/server/protocol"
)

type v12Run struct {
	servers []string
	streams []string
	groups  map[string]*consumerGroup
	parts   map[string]int32
	paused  map[string]map[int32]bool // metadata glue played by the driver, like parts
	names   v12Names
	idx     uint64
	log     logger.Logger
	expired []string // consumers reported by the liveness handler
}

func (r *v12Run) state() v12State {
	st := v12State{Gs: map[string]v12Group{}, Parts: map[string]int32{}, Paused: map[string][]int32{}, Idx: r.idx}
	for _, v := range r.servers {
		st.Gs[v] = r.names.group(v12Project(r.groups[v]))
	}
	for _, s := range r.streams {
		st.Parts[s] = r.parts[s]
		st.Paused[s] = []int32{}
		for p := int32(0); p < r.parts[s]; p++ {
			if r.paused[s][p] {
				st.Paused[s] = append(st.Paused[s], p)
			}
		}
	}
	return st
}

// getStreamPartitions as the metadata store answers it: all partitions of the
// stream (the groups ask with the real name)
func (r *v12Run) countPartitions(stream string) int32 { return r.parts[r.names.m(stream)] }

// partExists: admission of PAUSE_STREAM / RESUME_STREAM (metadata glue)
func (r *v12Run) partExists(s string, p int32) bool { return p >= 0 && p < r.parts[s] }

func (r *v12Run) allExist(streams []string) bool {
	for _, s := range streams {
		if r.parts[s] == 0 {
			return false
		}
	}
	return true
}

// applyLeave is what fsm.go/metadata.go do with a committed LEAVE_CONSUMER_GROUP
func (r *v12Run) applyLeave(c string) string {
	r.idx++
	errs := ""
	for _, v := range r.servers {
		g := r.groups[v]
		if g == nil {
			errs = "no_group"
			continue
		}
		last, err := g.RemoveMember(c, r.idx)
		if err != nil {
			errs = v12ErrClass(err)
			continue
		}
		if last {
			g.Close()
			r.groups[v] = nil
		}
	}
	return errs
}

func (r *v12Run) step(id int, step map[string]interface{}) v12Event {
	a := vStr(step, "a")
	args := map[string]interface{}{}
	obs := v12Obs{A: a, Ret: map[string][]int32{}}
	func() {
		defer func() {
			if p := recover(); p != nil {
				obs.Err = fmt.Sprintf("panic:%v", p)
			}
		}()
		switch a {
		case "CreateStream":
			s, n := vStr(step, "s"), vInt(step, "n")
			args["s"], args["n"] = s, n
			r.parts[s] = int32(n)
			r.paused[s] = map[int32]bool{}
			r.idx++
		case "DeleteStream":
			s := vStr(step, "s")
			args["s"] = s
			r.parts[s] = 0
			r.paused[s] = map[int32]bool{}
			r.idx++
			// metadataAPI.removeStream: the deletion is announced to the groups
			// before the apply returns
			for _, v := range r.servers {
				if g := r.groups[v]; g != nil {
					if err := g.StreamDeleted(r.names.r(s), r.idx); err != nil {
						obs.Err = "refused"
					}
				}
			}
		case "Pause", "Resume":
			// the metadata store is not part of this binding: pausing is glue (the
			// groups are never told); the real PAUSE_STREAM / RESUME_STREAM run in
			// the Server.apply binding
			s, p := vStr(step, "s"), int32(vInt(step, "p"))
			args["s"], args["p"] = s, p
			if !r.partExists(s, p) {
				obs.Err = "precondition"
				return
			}
			r.idx++
			if r.paused[s] == nil {
				r.paused[s] = map[int32]bool{}
			}
			r.paused[s][p] = a == "Pause"
		case "CreateGroup":
			c, coord, streams := vStr(step, "c"), vStr(step, "coord"), vFStrs(step, "streams")
			args["c"], args["coord"], args["streams"] = c, coord, streams
			// leader-side admission is metadata glue (played here; the real
			// checkCreateConsumerGroupPreconditions runs in the Server.apply binding)
			if r.groups[r.servers[0]] != nil || !r.allExist(streams) {
				obs.Err = "precondition"
				return
			}
			r.idx++
			for _, v := range r.servers {
				if r.groups[v] != nil {
					obs.Err = "exists"
					continue
				}
				srv := v
				r.groups[v] = newConsumerGroup(v, time.Hour,
					&proto.ConsumerGroup{Id: "g", Coordinator: coord,
						Members: []*proto.Consumer{{Id: c, Streams: r.names.rs(streams)}}},
					false, r.log,
					func(groupID, consumerID string) error {
						r.expired = append(r.expired, srv+":"+consumerID)
						return nil
					}, r.countPartitions)
			}
		case "Join":
			c, streams := vStr(step, "c"), vFStrs(step, "streams")
			args["c"], args["streams"] = c, streams
			if g := r.groups[r.servers[0]]; g == nil || g.IsMember(c) || !r.allExist(streams) {
				obs.Err = "precondition"
				return
			}
			r.idx++
			for _, v := range r.servers {
				g := r.groups[v]
				if g == nil {
					obs.Err = "no_group"
					continue
				}
				if err := g.AddMember(c, r.names.rs(streams), r.idx); err != nil {
					obs.Err = v12ErrClass(err)
				}
			}
		case "Leave":
			c, how := vStr(step, "c"), vStrDef(step, "how", "leave")
			args["c"], args["how"] = c, how
			if how == "expire" {
				// the coordinator's liveness timer fires: the callback asks the
				// controller to remove the member; the committed operation is
				// then applied by everybody
				fired := false
				for _, v := range r.servers {
					g := r.groups[v]
					if g == nil {
						continue
					}
					coord, _ := g.GetCoordinator()
					if coord != v || !g.IsMember(c) {
						continue
					}
					r.expired = r.expired[:0]
					g.consumerExpired(c)()
					if len(r.expired) == 1 && r.expired[0] == v+":"+c {
						fired = true
					}
					break
				}
				args["fired"] = fired
				if !fired {
					obs.A, a = "Skip", "Skip"
					return
				}
			}
			obs.Err = r.applyLeave(c)
		case "ChangeCoordinator":
			coord := vStr(step, "coord")
			args["coord"] = coord
			r.idx++
			for _, v := range r.servers {
				g := r.groups[v]
				if g == nil {
					continue
				}
				// metadataAPI.ChangeGroupCoordinator
				if _, epoch := g.GetCoordinator(); epoch >= r.idx {
					continue
				}
				if err := g.SetCoordinator(coord, r.idx); err != nil {
					obs.Err = v12ErrClass(err)
				}
			}
		case "Restore":
			// what fsm.go Snapshot + Restore + finishedRecovery do with a group:
			// members (with their streams), coordinator and epoch are written
			// out in map order and the group is rebuilt from them
			v := vStr(step, "srv")
			args["srv"] = v
			obs.Srv = v
			g := r.groups[v]
			if g == nil {
				obs.A, a = "Skip", "Skip"
				return
			}
			coord, epoch := g.GetCoordinator()
			pg := &proto.ConsumerGroup{Id: "g", Coordinator: coord, Epoch: epoch}
			order := []string{}
			for id, streams := range g.GetMembers() {
				pg.Members = append(pg.Members, &proto.Consumer{Id: id, Streams: streams})
				order = append(order, id)
			}
			args["order"] = order
			g.Close()
			srv := v
			ng := newConsumerGroup(v, time.Hour, pg, true, r.log,
				func(groupID, consumerID string) error {
					r.expired = append(r.expired, srv+":"+consumerID)
					return nil
				}, r.countPartitions)
			ng.StartRecovered()
			r.groups[v] = ng
		case "GetAssignments":
			v, c, d := vStr(step, "srv"), vStr(step, "c"), uint64(vInt(step, "d"))
			obs.Srv = v
			g := r.groups[v]
			if g == nil {
				args["srv"], args["c"], args["e"] = v, c, 0
				obs.Err = "no_group"
				return
			}
			_, epoch := g.GetCoordinator()
			e := epoch
			if d <= epoch {
				e = epoch - d
			}
			args["srv"], args["c"], args["e"] = v, c, e
			asg, _, err := g.GetAssignments(c, e)
			obs.Err = v12ErrClass(err)
			if err == nil {
				obs.Ret = r.names.ret(asg)
			}
		default:
			panic("unknown action " + a)
		}
	}()
	return v12Event{T: id, A: a, Args: args, St: r.state(), Obs: obs}
}

func (r *v12Run) close() {
	for _, g := range r.groups {
		if g != nil {
			g.Close()
		}
	}
}

func TestVerifGroupsDirect(t *testing.T) {
	vFSelectIO("DIRECT")
	sf := vLoadStimuli(t)
	tw := vOpenTrace(t)
	defer tw.Close()
	lg := logger.NewLogger(0)
	lg.Silent(true)
	for _, b := range sf.Behaviours {
		run := &v12Run{
			servers: vFStrs(b.Cfg, "servers"),
			streams: vFStrs(b.Cfg, "streams"),
			groups:  map[string]*consumerGroup{},
			parts:   map[string]int32{},
			paused:  map[string]map[int32]bool{},
			names:   v12NamesOf(b.Cfg),
			log:     lg,
		}
		init := b.Cfg["parts"].(map[string]interface{})
		for _, s := range run.streams {
			if n, ok := init[s]; ok {
				run.parts[s] = int32(n.(float64))
			}
		}
		tw.Emit(v12Event{T: b.ID, A: "Open", Args: map[string]interface{}{}, St: run.state(),
			Obs: v12Obs{A: "Open", Ret: map[string][]int32{}}})
		for _, step := range b.Steps {
			tw.Emit(run.step(b.ID, step))
		}
		run.close()
	}
}
