//go:build verif

package server

// Replica kit: three real liftbridge Servers (never Start()ed: no Raft, no gRPC)
// over one NATS server, driven step by step.  The harness plays only the Raft
// log: it decides which metadata operation is committed next and delivers it to
// each server through the real Server.apply.  Everything below that is the
// unmodified code: FSM apply -> metadataAPI -> partition.SetLeader ->
// becomeLeader / becomeFollower (epoch offset request, Truncate, replication
// request loop), real commit logs on disk, real acks over NATS.
//
// Schedule control: the follower's replication loop is parked at the
// verif gate "follower.before_request" and released one round trip at a time;
// all health timers are set to hours so nothing fires on its own.
//
// Properties C02 / C04: spec/Replication.tla, judged by Trace_Replication.tla.

import (
	"bufio"
	"bytes"
	"fmt"
	"io"
	"os"
	"path/filepath"
	"sort"
	"strconv"
	"strings"
	"sync"
	"testing"
	"time"

	client "github.com/liftbridge-io/liftbridge-api/v2/go"
	gnatsd "github.com/nats-io/nats-server/v2/server"
	"github.com/nats-io/nats.go"

	"github.com/liftbridge-io/liftbridge/server/commitlog"
	proto "github.com/liftbridge-io/liftbridge/server/protocol"
)

var vKitIDs = []string{"a", "b", "c"}

// ---- gate -------------------------------------------------------------------

type vFollowGate struct {
	mu       sync.Mutex
	arrivals map[string]int
	parked   map[string]int
	tokens   map[string]chan struct{}
	// second gate "follower.response_received": only holds a follower whose next
	// response the driver wants to lose (holdResp)
	holdResp   map[string]bool
	respParked map[string]int
	respTokens map[string]chan struct{}
	// respHeld: goroutines of a replica that sit inside the response handler right now
	respHeld map[string]int
}

func newVFollowGate() *vFollowGate {
	g := &vFollowGate{arrivals: map[string]int{}, parked: map[string]int{}, tokens: map[string]chan struct{}{},
		holdResp: map[string]bool{}, respParked: map[string]int{}, respTokens: map[string]chan struct{}{}, respHeld: map[string]int{}}
	for _, id := range vKitIDs {
		g.tokens[id] = make(chan struct{})
		g.respTokens[id] = make(chan struct{})
	}
	return g
}

func (g *vFollowGate) hook(name, id string, stop <-chan struct{}) {
	if name == "follower.response_received" {
		g.mu.Lock()
		hold, ch := g.holdResp[id], g.respTokens[id]
		if hold {
			g.respParked[id]++
			g.respHeld[id]++
			// one response per request of the driver: later responses pass
			g.holdResp[id] = false
		}
		g.mu.Unlock()
		if hold && ch != nil {
			<-ch
			g.mu.Lock()
			g.respHeld[id]--
			g.mu.Unlock()
		}
		return
	}
	g.mu.Lock()
	ch, ok := g.tokens[id]
	if !ok {
		g.mu.Unlock()
		return
	}
	g.arrivals[id]++
	g.parked[id]++
	g.mu.Unlock()
	select {
	case <-ch:
	case <-stop:
	}
	g.mu.Lock()
	g.parked[id]--
	g.mu.Unlock()
}

func (g *vFollowGate) arrived(id string) int {
	g.mu.Lock()
	defer g.mu.Unlock()
	return g.arrivals[id]
}

func (g *vFollowGate) heldNow(id string) int {
	g.mu.Lock()
	defer g.mu.Unlock()
	return g.respHeld[id]
}

func (g *vFollowGate) parkedNow(id string) int {
	g.mu.Lock()
	defer g.mu.Unlock()
	return g.parked[id]
}

// release lets one parked loop iteration of server id run; false if nobody
// took the token before the deadline.
func (g *vFollowGate) release(id string, d time.Duration) bool {
	select {
	case g.tokens[id] <- struct{}{}:
		return true
	case <-time.After(d):
		return false
	}
}

// ---- health-tick observations (verifTrace "replicator.tick") ------------------

type vTick struct {
	leader, replica  string
	outOfSync, inISR bool
}

var (
	vTickMu sync.Mutex
	vTicks  []vTick
)

func vTraceHook(ev string, fields ...interface{}) {
	if ev != "replicator.tick" || len(fields) != 4 {
		return
	}
	vTickMu.Lock()
	inISR := false
	if p, ok := fields[3].(*partition); ok && p != nil {
		inISR = p.inISR(fields[1].(string))
	}
	vTicks = append(vTicks, vTick{fields[0].(string), fields[1].(string), fields[2].(bool), inISR})
	vTickMu.Unlock()
}

func vTickCount(leader, replica string) (int, vTick) {
	vTickMu.Lock()
	defer vTickMu.Unlock()
	n, last := 0, vTick{}
	for _, t := range vTicks {
		if t.leader == leader && t.replica == replica {
			n++
			last = t
		}
	}
	return n, last
}

// ---- kit --------------------------------------------------------------------

type vAck struct {
	V   int64  `json:"v"`
	Off int64  `json:"off"`
	Pol string `json:"pol"`
}

type vRaftOp struct {
	data []byte
	idx  uint64
}

type vKit struct {
	ids      []string
	t        *testing.T
	base     string
	ns       *gnatsd.Server
	url      string
	nc       *nats.Conn
	gate     *vFollowGate
	stream   string
	subject  string
	srv      map[string]*Server
	ops      []vRaftOp
	idx      uint64
	leader   string
	lepoch   uint64
	isr      map[string]bool
	hwDisk   map[string]int64
	lastLog  map[string][]vRepRec
	lastGap  map[string]bool
	lastHW   map[string]int64
	lastIsr  map[string]map[string]int64
	ackInbox string
	ackMu    sync.Mutex
	acks     []vAck
	nacks    []int64
	minISR   int
	// minVia: "server" = clustering.min.insync.replicas of every server, "stream" = the stream's own
	// override in its CreateStream config (the server setting stays at its default 1), "api" = the
	// same override, the configuration built from a CreateStream request by the API's own translation
	minVia string
	// restartVia: "replay" = a restarted server replays the committed operations, "snapshot" = it is
	// restored from a metadata snapshot of a live replica (when there is one)
	restartVia string
	// wideEvery > 0: every message whose number is a multiple of it is stored as a record of
	// twice the plain size (replication responses are packed by size)
	wideEvery int
	fetchMax  int
	batch     int
	gapMs     int
	lagMs     int
	pending   map[string][]vRaftOp // ops committed but not yet applied by a lagging follower
	msgSize   int64
	// heldStop: the stop channel of the replication loop whose goroutine is held inside the
	// response handler (FetchHold); closed = that loop has been replaced or stopped since
	heldStop map[string]chan struct{}
}

type vRepRec struct {
	E int64 `json:"e"`
	V int64 `json:"v"`
}

func vPolicy(s string) client.AckPolicy {
	switch s {
	case "ALL":
		return client.AckPolicy_ALL
	case "LEADER":
		return client.AckPolicy_LEADER
	}
	return client.AckPolicy_NONE
}

func vPolicyName(p client.AckPolicy) string {
	switch p {
	case client.AckPolicy_ALL:
		return "ALL"
	case client.AckPolicy_LEADER:
		return "LEADER"
	}
	return "NONE"
}

func newVKit(t *testing.T, ns *gnatsd.Server, gate *vFollowGate, n int, minISR, fetchMax int, ids []string, batch int) *vKit {
	base, err := os.MkdirTemp("", "vkit")
	if err != nil {
		t.Fatalf("tempdir: %v", err)
	}
	k := &vKit{
		ids: ids,
		t:   t, base: base, ns: ns, url: ns.ClientURL(), gate: gate,
		stream: fmt.Sprintf("s%d", n), subject: fmt.Sprintf("subj%d", n),
		srv: map[string]*Server{}, isr: map[string]bool{}, hwDisk: map[string]int64{},
		lastLog: map[string][]vRepRec{}, lastGap: map[string]bool{}, lastHW: map[string]int64{}, lastIsr: map[string]map[string]int64{},
		minISR: minISR, fetchMax: fetchMax, batch: batch, pending: map[string][]vRaftOp{},
		heldStop: map[string]chan struct{}{},
	}
	nc, err := nats.Connect(k.url)
	if err != nil {
		t.Fatalf("nats connect: %v", err)
	}
	k.nc = nc
	k.ackInbox = fmt.Sprintf("vacks.%d", n)
	if _, err := nc.Subscribe(k.ackInbox, k.onAck); err != nil {
		t.Fatalf("ack sub: %v", err)
	}
	nc.Flush()
	return k
}

func (k *vKit) onAck(m *nats.Msg) {
	ack, err := proto.UnmarshalAck(m.Data)
	if err != nil {
		return
	}
	v, _ := strconv.ParseInt(strings.TrimPrefix(ack.CorrelationId, "c"), 10, 64)
	k.ackMu.Lock()
	defer k.ackMu.Unlock()
	if ack.AckError != client.Ack_OK {
		k.nacks = append(k.nacks, v)
		return
	}
	k.acks = append(k.acks, vAck{V: v, Off: ack.Offset, Pol: vPolicyName(ack.AckPolicy)})
}

func (k *vKit) takeAcks() ([]vAck, []int64) {
	k.ackMu.Lock()
	defer k.ackMu.Unlock()
	a, n := k.acks, k.nacks
	k.acks, k.nacks = nil, nil
	if a == nil {
		a = []vAck{}
	}
	if n == nil {
		n = []int64{}
	}
	sort.Slice(a, func(i, j int) bool { return a[i].V < a[j].V })
	return a, n
}

func (k *vKit) ackCount() int {
	k.ackMu.Lock()
	defer k.ackMu.Unlock()
	return len(k.acks) + len(k.nacks)
}

func (k *vKit) newServer(id string) *Server {
	config := NewDefaultConfig()
	config.DataDir = filepath.Join(k.base, id)
	config.Clustering.ServerID = id
	config.Clustering.Namespace = "vkit-" + k.stream
	config.LogSilent = true
	config.EmbeddedNATS = false
	config.NATS.Servers = []string{k.url}
	config.Telemetry.Enabled = false
	config.Clustering.MinISR = k.minISR
	if k.minVia == "stream" || k.minVia == "api" {
		config.Clustering.MinISR = 1
	}
	config.Clustering.ReplicaMaxLagTime = 10 * time.Hour
	if k.lagMs > 0 {
		// timed scenarios: the leader's own health check runs with a real, short lag window
		config.Clustering.ReplicaMaxLagTime = time.Duration(k.lagMs) * time.Millisecond
	}
	config.Clustering.ReplicaMaxLeaderTimeout = 10 * time.Hour
	config.Clustering.ReplicaFetchTimeout = 250 * time.Millisecond
	config.Clustering.ReplicaMaxIdleWait = time.Millisecond
	config.BatchMaxMessages = 1
	config.BatchMaxTime = 0
	if k.batch > 1 {
		// the leader waits up to BatchMaxTime for a batch to fill: the driver sends
		// the messages of one batch back to back
		config.BatchMaxMessages = k.batch
		config.BatchMaxTime = 150 * time.Millisecond
	}
	config.Streams.SegmentMaxBytes = 1 << 20
	// one stored record = 28 (message-set header) + 64 + len(subject) bytes; a
	// replication response may carry at most fetchMax of them
	msz := int64(92 + len(k.subject))
	config.Clustering.ReplicationMaxBytes = 24 + int64(k.fetchMax)*msz + msz/2
	s := New(config)
	if err := os.MkdirAll(config.DataDir, 0755); err != nil {
		k.t.Fatalf("mkdir: %v", err)
	}
	if err := s.createNATSConns(); err != nil {
		k.t.Fatalf("nats conns: %v", err)
	}
	s.api = &apiServer{Server: s}
	return s
}

func (k *vKit) applyTo(id string, op vRaftOp, recovered bool) error {
	s := k.srv[id]
	log := &proto.RaftLog{}
	if err := log.Unmarshal(op.data); err != nil {
		return err
	}
	_, err := s.apply(log, op.idx, recovered)
	return err
}

func (k *vKit) commit(log *proto.RaftLog) vRaftOp {
	data, err := log.Marshal()
	if err != nil {
		k.t.Fatalf("marshal op: %v", err)
	}
	k.idx++
	op := vRaftOp{data: data, idx: k.idx}
	k.ops = append(k.ops, op)
	return op
}

// create commits CREATE_STREAM (index 1) with leader a and ISR {a,b,c}.
func (k *vKit) create() {
	for _, id := range k.ids {
		k.srv[id] = k.newServer(id)
		k.hwDisk[id] = -1
		k.isr[id] = true
	}
	k.leader = "a"
	var sc *proto.StreamConfig
	if k.minVia == "stream" {
		sc = &proto.StreamConfig{MinIsr: &proto.NullableInt32{Value: int32(k.minISR)}}
	} else if k.minVia == "api" {
		// the stream configuration as the API builds it from a CreateStream request (the real
		// request-to-operation translation; the request carries the replication factor the way
		// apiServer.CreateStream leaves it: 0 has become 1)
		sc = getStreamConfig(&client.CreateStreamRequest{
			Subject: k.subject, Name: k.stream, ReplicationFactor: int32(len(k.ids)),
			MinIsr: &client.NullableInt32{Value: int32(k.minISR)},
		})
	}
	op := k.commit(&proto.RaftLog{
		Op: proto.Op_CREATE_STREAM,
		CreateStreamOp: &proto.CreateStreamOp{Stream: &proto.Stream{
			Name: k.stream, Subject: k.subject, CreationTimestamp: time.Now().UnixNano(), Config: sc,
			Partitions: []*proto.Partition{{
				Subject: k.subject, Stream: k.stream, Id: 0, ReplicationFactor: int32(len(k.ids)),
				Replicas: append([]string{}, k.ids...), Isr: append([]string{}, k.ids...), Leader: "a",
			}},
		}},
	})
	k.lepoch = op.idx
	for _, id := range k.ids {
		if err := k.applyTo(id, op, false); err != nil {
			k.t.Fatalf("create on %s: %v", id, err)
		}
	}
	k.waitParked()
}

func (k *vKit) part(id string) *partition {
	s, ok := k.srv[id]
	if !ok {
		return nil
	}
	return s.metadata.GetPartition(k.stream, 0)
}

// waitParked waits until every follower's replication loop sits at its gate.
func (k *vKit) waitParked() {
	deadline := time.Now().Add(3 * time.Second)
	for time.Now().Before(deadline) {
		ok := true
		for id := range k.srv {
			p := k.part(id)
			if p == nil {
				continue
			}
			p.mu.RLock()
			following := p.isFollowing
			p.mu.RUnlock()
			if following && k.gate.parkedNow(id) == 0 && !k.heldCurrent(id) {
				ok = false
			}
		}
		if ok {
			return
		}
		time.Sleep(time.Millisecond)
	}
}

// settle waits until the leader's HW and the number of acks received stop
// changing (the commit loop and ack delivery are asynchronous).
func (k *vKit) settle() {
	last := ""
	stable := 0
	for i := 0; i < 400 && stable < 3; i++ {
		time.Sleep(4 * time.Millisecond)
		cur := fmt.Sprintf("%d", k.ackCount())
		for _, id := range k.ids {
			if p := k.part(id); p != nil {
				cur += fmt.Sprintf("|%d:%d:%d", p.log.HighWatermark(), p.log.NewestOffset(), len(p.commitCheck))
			}
		}
		if cur == last {
			stable++
		} else {
			stable, last = 0, cur
		}
	}
}

func (k *vKit) leaderPart() *partition {
	p := k.part(k.leader)
	if p == nil || !p.IsLeader() {
		return nil
	}
	return p
}

// pad returns the filler that brings the value of message v to its size class.
func (k *vKit) pad(v int64, have int) string {
	n := 24 - have
	if k.wideEvery > 0 && v%int64(k.wideEvery) == 0 {
		n += 92 + len(k.subject)
	}
	return strings.Repeat(".", n)
}

func (k *vKit) publish(v int64, pol string, big bool) string {
	p := k.leaderPart()
	if p == nil {
		return "no-leader"
	}
	before := p.log.NewestOffset()
	val := fmt.Sprintf("m%d|", v)
	if big {
		val += strings.Repeat("X", int(p.srv.config.Clustering.ReplicationMaxBytes)+64)
	} else {
		val += k.pad(v, len(val))
	}
	data, err := proto.MarshalPublish(&client.Message{
		Value: []byte(val), AckInbox: k.ackInbox, CorrelationId: fmt.Sprintf("c%d", v),
		AckPolicy: vPolicy(pol),
	})
	if err != nil {
		k.t.Fatalf("marshal publish: %v", err)
	}
	if err := k.nc.Publish(k.subject, data); err != nil {
		return "publish-error"
	}
	k.nc.Flush()
	if !big {
		deadline := time.Now().Add(3 * time.Second)
		for p.log.NewestOffset() == before && time.Now().Before(deadline) {
			time.Sleep(200 * time.Microsecond)
		}
		if p.log.NewestOffset() == before {
			return "not-appended"
		}
	}
	k.settle()
	return ""
}

// publishBatch sends the messages of one batch (back to back, or with a small gap
// so that later members arrive while the leader waits for the batch to fill) and
// waits until all members that are not too large are stored.
func (k *vKit) publishBatch(vs []int64, pols []string, bigs []bool) string {
	if len(vs) == 1 && !bigs[0] {
		return k.publish(vs[0], pols[0], false)
	}
	p := k.leaderPart()
	if p == nil {
		return "no-leader"
	}
	before := p.log.NewestOffset()
	want := int64(0)
	for i, v := range vs {
		val := fmt.Sprintf("m%d|", v)
		if bigs[i] {
			val += strings.Repeat("X", int(p.srv.config.Clustering.ReplicationMaxBytes)+64)
		} else {
			val += k.pad(v, len(val))
			want++
		}
		data, err := proto.MarshalPublish(&client.Message{
			Value: []byte(val), AckInbox: k.ackInbox, CorrelationId: fmt.Sprintf("c%d", v),
			AckPolicy: vPolicy(pols[i]),
		})
		if err != nil {
			k.t.Fatalf("marshal publish: %v", err)
		}
		if i > 0 && k.gapMs > 0 {
			k.nc.Flush()
			time.Sleep(time.Duration(k.gapMs) * time.Millisecond)
		}
		if err := k.nc.Publish(k.subject, data); err != nil {
			return "publish-error"
		}
	}
	k.nc.Flush()
	deadline := time.Now().Add(3 * time.Second)
	for p.log.NewestOffset() < before+want && time.Now().Before(deadline) {
		time.Sleep(200 * time.Microsecond)
	}
	if p.log.NewestOffset() < before+want {
		return "not-appended"
	}
	// the batch closes when it is full or after BatchMaxTime
	if k.batch > 1 && int(want) < k.batch {
		time.Sleep(160 * time.Millisecond)
	}
	k.settle()
	return ""
}

func (k *vKit) fetch(f string) string {
	p := k.part(f)
	if p == nil {
		return "down"
	}
	before := k.gate.arrived(f)
	if !k.gate.release(f, time.Second) {
		return "not-parked"
	}
	deadline := time.Now().Add(3 * time.Second)
	for k.gate.arrived(f) == before && time.Now().Before(deadline) {
		time.Sleep(200 * time.Microsecond)
	}
	if k.gate.arrived(f) == before {
		return "no-return"
	}
	k.settle()
	return ""
}

// fetchLost: follower f sends its replication request, the leader handles it and answers,
// and f dies after it received the response and before it stored anything.
func (k *vKit) fetchLost(f string) string {
	p := k.part(f)
	if p == nil {
		return "down"
	}
	g := k.gate
	g.mu.Lock()
	g.holdResp[f] = true
	before := g.respParked[f]
	g.mu.Unlock()
	defer func() {
		g.mu.Lock()
		g.holdResp[f] = false
		g.mu.Unlock()
	}()
	if !g.release(f, time.Second) {
		return "not-parked"
	}
	deadline := time.Now().Add(3 * time.Second)
	got := false
	for time.Now().Before(deadline) {
		g.mu.Lock()
		got = g.respParked[f] > before
		g.mu.Unlock()
		if got {
			break
		}
		time.Sleep(200 * time.Microsecond)
	}
	res := k.crash(f)
	g.mu.Lock()
	g.holdResp[f] = false
	g.mu.Unlock()
	// (crash lets the held handler run on: the partition is closed, it drops the response)
	if !got && res == "" {
		res = "no-response"
	}
	k.settle()
	return res
}

// heldCurrent: the replication loop that is running for replica id right now is the one
// whose goroutine is held inside the response handler.
func (k *vKit) heldCurrent(id string) bool {
	stop, ok := k.heldStop[id]
	if !ok || k.gate.heldNow(id) == 0 {
		return false
	}
	select {
	case <-stop:
		return false
	default:
		return true
	}
}

// fetchHold: follower f sends its replication request, the leader handles it and answers; the
// response has reached f's process and is not acted upon yet (the goroutine is held at the
// entry of the response handler) until a Deliver step - whatever happens to f in between.
func (k *vKit) fetchHold(f string) string {
	p := k.part(f)
	if p == nil {
		return "down"
	}
	g := k.gate
	if g.heldNow(f) > 0 {
		return "already-held"
	}
	p.mu.RLock()
	stop := p.stopFollower
	p.mu.RUnlock()
	g.mu.Lock()
	g.holdResp[f] = true
	before := g.respParked[f]
	g.mu.Unlock()
	if !g.release(f, time.Second) {
		g.mu.Lock()
		g.holdResp[f] = false
		g.mu.Unlock()
		return "not-parked"
	}
	deadline := time.Now().Add(3 * time.Second)
	got := false
	for time.Now().Before(deadline) {
		g.mu.Lock()
		got = g.respParked[f] > before
		g.mu.Unlock()
		if got {
			break
		}
		time.Sleep(200 * time.Microsecond)
	}
	g.mu.Lock()
	g.holdResp[f] = false
	g.mu.Unlock()
	if !got {
		// no response (the request timed out): the loop is back at its gate
		k.settle()
		return "no-response"
	}
	k.heldStop[f] = stop
	k.settle()
	return ""
}

// deliver lets the held response of replica f into its handler now.
func (k *vKit) deliver(f string) string {
	g := k.gate
	if g.heldNow(f) == 0 {
		return "not-held"
	}
	current := k.heldCurrent(f)
	before := g.arrived(f)
	var lg commitlog.CommitLog
	newest := int64(-2)
	if p := k.part(f); p != nil {
		lg = p.log
		newest = lg.NewestOffset()
	}
	select {
	case g.respTokens[f] <- struct{}{}:
	case <-time.After(time.Second):
		return "not-held"
	}
	delete(k.heldStop, f)
	if current {
		// the loop goes on: the step is over when it is back at its gate
		deadline := time.Now().Add(3 * time.Second)
		for g.arrived(f) == before && time.Now().Before(deadline) {
			time.Sleep(200 * time.Microsecond)
		}
		if g.arrived(f) == before {
			return "no-return"
		}
	} else {
		// a goroutine of a loop that was stopped meanwhile: it leaves after the handler, there is
		// nothing to wait for but what the handler does to the log
		deadline := time.Now().Add(120 * time.Millisecond)
		for time.Now().Before(deadline) {
			if lg != nil && lg.NewestOffset() != newest {
				break
			}
			time.Sleep(500 * time.Microsecond)
		}
	}
	k.settle()
	return ""
}

// dropHeld: the process of replica r is gone: a response it had received dies with it (the held
// goroutine runs on against the closed partition).
func (k *vKit) dropHeld(r string) {
	g := k.gate
	for g.heldNow(r) > 0 {
		select {
		case g.respTokens[r] <- struct{}{}:
		case <-time.After(time.Second):
			return
		}
		time.Sleep(2 * time.Millisecond)
	}
	delete(k.heldStop, r)
}

func (k *vKit) upIDs() []string {
	out := []string{}
	for _, id := range k.ids {
		if _, ok := k.srv[id]; ok {
			out = append(out, id)
		}
	}
	return out
}

func (k *vKit) isrOp(f string, shrink bool) string {
	var log *proto.RaftLog
	if shrink {
		log = &proto.RaftLog{Op: proto.Op_SHRINK_ISR, ShrinkISROp: &proto.ShrinkISROp{
			Stream: k.stream, Partition: 0, ReplicaToRemove: f, Leader: k.leader, LeaderEpoch: k.lepoch}}
		delete(k.isr, f)
	} else {
		log = &proto.RaftLog{Op: proto.Op_EXPAND_ISR, ExpandISROp: &proto.ExpandISROp{
			Stream: k.stream, Partition: 0, ReplicaToAdd: f, Leader: k.leader, LeaderEpoch: k.lepoch}}
		k.isr[f] = true
	}
	op := k.commit(log)
	ids := k.upIDs()
	sort.Slice(ids, func(i, j int) bool { return ids[i] == k.leader && ids[j] != k.leader })
	for _, id := range ids {
		if len(k.pending[id]) > 0 {
			// a lagging follower applies it later, in order
			k.pending[id] = append(k.pending[id], op)
			continue
		}
		if err := k.applyTo(id, op, false); err != nil {
			return "apply-error:" + err.Error()
		}
	}
	k.settle()
	return ""
}

func (k *vKit) elect(n string, reach bool, lag map[string]bool) string {
	if !k.isr[n] {
		// the controller only ever elects a member of the in-sync set
		return "skipped:not-in-isr"
	}
	old := k.leader
	op := k.commit(&proto.RaftLog{Op: proto.Op_CHANGE_LEADER, ChangeLeaderOp: &proto.ChangeLeaderOp{
		Stream: k.stream, Partition: 0, Leader: n}})
	k.leader, k.lepoch = n, op.idx
	_, nUp := k.srv[n]
	others := []string{}
	for _, id := range k.upIDs() {
		if id == n {
			continue
		}
		if lag[id] {
			// this follower learns of the leader change later (ApplyMeta)
			k.pending[id] = append(k.pending[id], op)
			continue
		}
		others = append(others, id)
	}
	applyOthers := func() string {
		// followers reconcile concurrently (a follower that cannot reach the
		// leader retries for ~3 s before it falls back)
		var wg sync.WaitGroup
		errs := make([]error, len(others))
		for i, id := range others {
			wg.Add(1)
			go func(i int, id string) {
				defer wg.Done()
				errs[i] = k.applyTo(id, op, false)
			}(i, id)
		}
		wg.Wait()
		for _, e := range errs {
			if e != nil {
				return "apply-error:" + e.Error()
			}
		}
		return ""
	}
	res := ""
	if nUp && reach {
		if err := k.applyTo(n, op, false); err != nil {
			return "apply-error:" + err.Error()
		}
		// a replaced leader that is still alive steps down before the other followers
		// reconcile: otherwise it may still answer their epoch offset requests (both
		// servers listen on the partition's request subject until it has applied the change)
		rest := []string{}
		for _, id := range others {
			if id == old {
				if err := k.applyTo(id, op, false); err != nil {
					return "apply-error:" + err.Error()
				}
			} else {
				rest = append(rest, id)
			}
		}
		others = rest
		res = applyOthers()
	} else {
		res = applyOthers()
		if nUp {
			if err := k.applyTo(n, op, false); err != nil {
				return "apply-error:" + err.Error()
			}
		}
	}
	k.waitParked()
	k.settle()
	return res
}

// pauseResume commits PAUSE_STREAM and RESUME_STREAM: every live replica closes its
// partition and replaces it by a new object built from the current metadata; the
// leader resumes first so that the followers can reconcile against it.
func (k *vKit) pauseResume() string {
	pause := k.commit(&proto.RaftLog{Op: proto.Op_PAUSE_STREAM, PauseStreamOp: &proto.PauseStreamOp{
		Stream: k.stream, Partitions: []int32{0}}})
	resume := k.commit(&proto.RaftLog{Op: proto.Op_RESUME_STREAM, ResumeStreamOp: &proto.ResumeStreamOp{
		Stream: k.stream, Partitions: []int32{0}}})
	ids := k.upIDs()
	sort.Slice(ids, func(i, j int) bool { return ids[i] == k.leader && ids[j] != k.leader })
	for _, id := range ids {
		if err := k.applyTo(id, pause, false); err != nil {
			return "apply-error:" + err.Error()
		}
	}
	for _, id := range ids {
		if err := k.applyTo(id, resume, false); err != nil {
			return "apply-error:" + err.Error()
		}
		// a clean close checkpoints the HW
		if p := k.part(id); p != nil {
			k.hwDisk[id] = p.log.HighWatermark()
		}
	}
	k.waitParked()
	k.settle()
	return ""
}

// applyMeta lets a lagging follower apply the operations it has not seen yet.
func (k *vKit) applyMeta(f string) string {
	if _, ok := k.srv[f]; !ok {
		return "down"
	}
	ops := k.pending[f]
	delete(k.pending, f)
	for _, op := range ops {
		if err := k.applyTo(f, op, false); err != nil {
			return "apply-error:" + err.Error()
		}
	}
	k.waitParked()
	k.settle()
	return ""
}

// unreachable runs fn while a serving leader does not answer leader epoch offset requests: its
// subscription for them is removed and restored afterwards (NATS request / reply is at-most-once: a
// request nobody answers is what a follower sees when requests or responses are lost, or when the new
// leader has not subscribed yet).  The follower's three attempts fail and it reconciles by its HW.
// Nothing is done when nobody serves (leader down): the requests go unanswered anyway.
func (k *vKit) unreachable(fn func() string) string {
	p := k.part(k.leader)
	if p == nil {
		return fn()
	}
	p.mu.Lock()
	serving := p.isLeading && p.leaderOffsetSub != nil
	var err error
	if serving {
		err = p.leaderOffsetSub.Unsubscribe()
	}
	p.mu.Unlock()
	if !serving {
		return fn()
	}
	if err != nil {
		return "unsubscribe-error:" + err.Error()
	}
	p.srv.ncRepl.Flush()
	res := fn()
	p.mu.Lock()
	sub, err := p.srv.ncRepl.Subscribe(p.getLeaderOffsetRequestInbox(), p.handleLeaderOffsetRequest)
	if err == nil {
		sub.SetPendingLimits(-1, -1)
		p.leaderOffsetSub = sub
	}
	p.mu.Unlock()
	p.srv.ncRepl.Flush()
	if err != nil && res == "" {
		return "subscribe-error:" + err.Error()
	}
	return res
}

func (k *vKit) hwFile(id string) string {
	return filepath.Join(k.base, id, "streams", k.stream, "0", "replication-offset-checkpoint")
}

func (k *vKit) crash(r string) string {
	s, ok := k.srv[r]
	if !ok {
		return "down"
	}
	k.snapshot(r)
	p := k.part(r)
	if p != nil {
		if err := p.Close(); err != nil {
			return "close-error:" + err.Error()
		}
	}
	k.dropHeld(r)
	s.closeNATSConns()
	delete(k.srv, r)
	delete(k.pending, r)
	// process-crash model: log data written so far stays, the HW file holds the
	// last checkpoint (not the value a clean close writes)
	if err := os.WriteFile(k.hwFile(r), []byte(strconv.FormatInt(k.hwDisk[r], 10)), 0644); err != nil {
		return "hwfile:" + err.Error()
	}
	k.lastHW[r] = k.hwDisk[r]
	return ""
}

// vSnapSink collects a persisted FSM snapshot in memory.
type vSnapSink struct {
	bytes.Buffer
}

func (k *vSnapSink) Close() error  { return nil }
func (k *vSnapSink) ID() string    { return "verif-kit" }
func (k *vSnapSink) Cancel() error { return nil }

// snapshotOf returns the persisted metadata snapshot of a live replica that has applied every
// committed operation (nil if there is none).
func (k *vKit) snapshotOf() []byte {
	for _, id := range k.ids {
		s, ok := k.srv[id]
		if !ok || len(k.pending[id]) > 0 {
			continue
		}
		fs, err := s.Snapshot()
		if err != nil {
			continue
		}
		sink := &vSnapSink{}
		if err := fs.Persist(sink); err != nil {
			continue
		}
		return sink.Bytes()
	}
	return nil
}

func (k *vKit) restart(r string) string {
	if _, ok := k.srv[r]; ok {
		return "up"
	}
	var snap []byte
	if k.restartVia == "snapshot" {
		// the restarted server gets the metadata from a Raft snapshot (taken now by a live replica)
		// instead of replaying the operations one by one
		snap = k.snapshotOf()
	}
	s := k.newServer(r)
	k.srv[r] = s
	if snap != nil {
		if err := s.Restore(io.NopCloser(bytes.NewReader(snap))); err != nil {
			return "restore-error:" + err.Error()
		}
	} else {
		for _, op := range k.ops {
			if err := k.applyTo(r, op, true); err != nil {
				return "replay-error:" + err.Error()
			}
		}
	}
	if _, _, err := s.finishedRecovery(k.idx); err != nil {
		return "recovery-error:" + err.Error()
	}
	k.waitParked()
	k.settle()
	return ""
}

func (k *vKit) close() {
	for _, id := range k.upIDs() {
		if p := k.part(id); p != nil {
			p.Close()
		}
		k.dropHeld(id)
		k.srv[id].closeNATSConns()
	}
	k.nc.Close()
	os.RemoveAll(k.base)
}

// ---- projection ---------------------------------------------------------------

func vReadRepLog(l commitlog.CommitLog) []vRepRec {
	out, _ := vReadRepLogGap(l)
	return out
}

// vReadRepLogGap also reports whether the stored offsets are not the consecutive run 0, 1, 2, ...
func vReadRepLogGap(l commitlog.CommitLog) ([]vRepRec, bool) {
	out := []vRepRec{}
	gap := false
	r, err := l.NewReader(0, true)
	if err != nil {
		return out, false
	}
	headers := make([]byte, 28)
	ctx := vCancelledCtx()
	for i := 0; i < 4096; i++ {
		m, off, _, ep, err := r.ReadMessage(ctx, headers)
		if err != nil {
			break
		}
		if off != int64(len(out)) {
			gap = true
		}
		val := string(m.Value())
		v := int64(-1)
		if j := strings.IndexByte(val, '|'); j > 1 && val[0] == 'm' {
			v, _ = strconv.ParseInt(val[1:j], 10, 64)
		}
		out = append(out, vRepRec{E: int64(ep), V: v})
	}
	return out, gap
}

type vEpochEntry struct {
	E int64 `json:"e"`
	S int64 `json:"s"`
}

func (k *vKit) readEpochs(id string) []vEpochEntry {
	out := []vEpochEntry{}
	f, err := os.Open(filepath.Join(k.base, id, "streams", k.stream, "0", "leader-epoch-checkpoint"))
	if err != nil {
		return out
	}
	defer f.Close()
	sc := bufio.NewScanner(f)
	sc.Split(bufio.ScanWords)
	words := []string{}
	for sc.Scan() {
		words = append(words, sc.Text())
	}
	for i := 2; i+1 < len(words); i += 2 {
		e, _ := strconv.ParseInt(words[i], 10, 64)
		s, _ := strconv.ParseInt(words[i+1], 10, 64)
		out = append(out, vEpochEntry{E: e, S: s})
	}
	return out
}

// snapshot remembers what a replica holds (used while it is down).
func (k *vKit) snapshot(id string) {
	p := k.part(id)
	if p == nil {
		return
	}
	k.lastLog[id], k.lastGap[id] = vReadRepLogGap(p.log)
	k.lastHW[id] = p.log.HighWatermark()
	io := map[string]int64{}
	p.mu.RLock()
	for x, rep := range p.isr {
		io[x] = rep.getLatestOffset()
	}
	p.mu.RUnlock()
	k.lastIsr[id] = io
}

type vRepState struct {
	Meta   map[string]interface{}      `json:"meta"`
	Up     map[string]bool             `json:"up"`
	Role   map[string]string           `json:"role"`
	Log    map[string][]vRepRec        `json:"log"`
	HW     map[string]int64            `json:"hw"`
	HWDisk map[string]int64            `json:"hwDisk"`
	Ec     map[string][]vEpochEntry    `json:"ec"`
	IsrOff map[string]map[string]int64 `json:"isrOff"`
	PendN  map[string]int64            `json:"pendN"`
	Lag    []string                    `json:"lagging"`
	// Gap: the offsets stored by the replica are not the consecutive run 0, 1, 2, ...
	Gap map[string]bool `json:"gap"`
	// Held: a goroutine of the replica sits inside the replication response handler, the response not looked at yet
	Held map[string]bool `json:"held"`
}

func (k *vKit) state() vRepState {
	isr := []string{}
	for id := range k.isr {
		isr = append(isr, id)
	}
	sort.Strings(isr)
	leader, lepoch := k.leader, k.lepoch
	// the metadata as the real servers hold it: the view of the first live replica that has
	// applied every committed operation (all of them applied the same sequence); the driver's
	// own bookkeeping is only used while no such replica exists
	for _, id := range k.ids {
		if p := k.part(id); p != nil && len(k.pending[id]) == 0 {
			isr = p.GetISR()
			sort.Strings(isr)
			l, e := p.GetLeader()
			leader, lepoch = l, e
			break
		}
	}
	st := vRepState{
		Meta: map[string]interface{}{"leader": leader, "lepoch": lepoch, "isr": isr, "idx": k.idx},
		Up:   map[string]bool{}, Role: map[string]string{}, Log: map[string][]vRepRec{},
		HW: map[string]int64{}, HWDisk: map[string]int64{}, Ec: map[string][]vEpochEntry{},
		IsrOff: map[string]map[string]int64{}, PendN: map[string]int64{},
	}
	st.Lag = []string{}
	st.Gap = map[string]bool{}
	st.Held = map[string]bool{}
	for _, id := range k.ids {
		st.Gap[id] = k.lastGap[id]
		st.Held[id] = k.gate.heldNow(id) > 0
	}
	for _, id := range k.ids {
		if len(k.pending[id]) > 0 {
			st.Lag = append(st.Lag, id)
		}
	}
	for _, id := range k.ids {
		p := k.part(id)
		st.Up[id] = p != nil
		st.HWDisk[id] = k.hwDisk[id]
		st.Ec[id] = k.readEpochs(id)
		st.PendN[id] = 0
		if p == nil {
			st.Role[id] = "none"
		} else {
			k.snapshot(id)
			p.mu.RLock()
			switch {
			case p.isLeading:
				st.Role[id] = "leader"
				if p.commitQueue != nil {
					st.PendN[id] = p.commitQueue.Len()
				}
			case p.isFollowing:
				st.Role[id] = "follower"
			default:
				st.Role[id] = "none"
			}
			p.mu.RUnlock()
		}
		lg := k.lastLog[id]
		if lg == nil {
			lg = []vRepRec{}
		}
		st.Log[id] = lg
		hw, ok := k.lastHW[id]
		if !ok {
			hw = -1
		}
		st.HW[id] = hw
		io := k.lastIsr[id]
		if io == nil {
			io = map[string]int64{}
		}
		st.IsrOff[id] = io
	}
	return st
}

type vRepEvent struct {
	T    int                    `json:"t"`
	A    string                 `json:"a"`
	Args map[string]interface{} `json:"args"`
	St   vRepState              `json:"st"`
	Obs  map[string]interface{} `json:"obs"`
	Res  string                 `json:"res"`
}

func (k *vKit) step(id int, step map[string]interface{}) vRepEvent {
	a := vStr(step, "a")
	args := map[string]interface{}{}
	res := ""
	switch a {
	case "Publish":
		recs := vList(step, "recs")
		out := []map[string]interface{}{}
		vs, pols, bigs := []int64{}, []string{}, []bool{}
		for _, r := range recs {
			vs, pols, bigs = append(vs, vInt(r, "v")), append(pols, vStr(r, "pol")), append(bigs, vBool(r, "big"))
			out = append(out, map[string]interface{}{"v": vInt(r, "v"), "pol": vStr(r, "pol"), "big": vBool(r, "big")})
		}
		res = k.publishBatch(vs, pols, bigs)
		args["recs"] = out
	case "PublishRejected":
		args["v"] = vInt(step, "v")
		res = k.publish(vInt(step, "v"), "ALL", true)
	case "Fetch":
		args["f"] = vStr(step, "f")
		res = k.fetch(vStr(step, "f"))
	case "FetchLost":
		args["f"] = vStr(step, "f")
		res = k.fetchLost(vStr(step, "f"))
	case "FetchHold":
		args["f"] = vStr(step, "f")
		res = k.fetchHold(vStr(step, "f"))
	case "Deliver":
		args["f"] = vStr(step, "f")
		res = k.deliver(vStr(step, "f"))
	case "LagExpire":
		args["f"] = vStr(step, "f")
	case "Shrink":
		args["f"] = vStr(step, "f")
		res = k.isrOp(vStr(step, "f"), true)
	case "Expand":
		args["f"] = vStr(step, "f")
		res = k.isrOp(vStr(step, "f"), false)
	case "Checkpoint":
		r := vStr(step, "r")
		args["r"] = r
		if p := k.part(r); p != nil {
			k.hwDisk[r] = p.log.HighWatermark()
		}
	case "Crash":
		args["r"] = vStr(step, "r")
		res = k.crash(vStr(step, "r"))
	case "Restart":
		args["r"], args["reach"] = vStr(step, "r"), vBool(step, "reach")
		if vBool(step, "reach") {
			res = k.restart(vStr(step, "r"))
		} else {
			// the leader epoch offset requests of the rejoining replica go unanswered (HW fallback)
			res = k.unreachable(func() string { return k.restart(vStr(step, "r")) })
		}
	case "Elect":
		lag := map[string]bool{}
		lagList := []string{}
		if arr, ok := step["lag"].([]interface{}); ok {
			for _, x := range arr {
				lag[x.(string)] = true
				lagList = append(lagList, x.(string))
			}
		}
		args["n"], args["reach"], args["lag"] = vStr(step, "n"), vBool(step, "reach"), lagList
		res = k.elect(vStr(step, "n"), vBool(step, "reach"), lag)
	case "PauseResume":
		res = k.pauseResume()
	case "AwaitTick":
		// wait for the next health check of follower f by the current leader and
		// record the decision it took; the requests it makes to the controller are
		// committed by the harness (playing the controller) as separate steps
		f := vStr(step, "f")
		args["f"] = f
		leader := k.leader
		n0, _ := vTickCount(leader, f)
		deadline := time.Now().Add(time.Duration(4*k.lagMs+6000) * time.Millisecond)
		var last vTick
		n := n0
		for n == n0 && time.Now().Before(deadline) {
			time.Sleep(2 * time.Millisecond)
			n, last = vTickCount(leader, f)
		}
		if n == n0 {
			res = "no-tick"
			args["outOfSync"], args["inISR"] = false, false
		} else {
			args["outOfSync"], args["inISR"] = last.outOfSync, last.inISR
		}
	case "StaleFetch":
		// the follower still runs its old-epoch loop: one request goes out; the
		// new leader must ignore it, the request times out, the loop returns
		args["f"] = vStr(step, "f")
		res = k.fetch(vStr(step, "f"))
	case "ApplyMeta":
		args["f"], args["reach"] = vStr(step, "f"), vBool(step, "reach")
		if vBool(step, "reach") {
			res = k.applyMeta(vStr(step, "f"))
		} else {
			res = k.unreachable(func() string { return k.applyMeta(vStr(step, "f")) })
		}
	default:
		k.t.Fatalf("unknown action %q", a)
	}
	acks, nacks := k.takeAcks()
	return vRepEvent{T: id, A: a, Args: args, St: k.state(),
		Obs: map[string]interface{}{"acks": acks, "nacks": nacks}, Res: res}
}

func vStartNATS(t *testing.T) *gnatsd.Server {
	opts := &gnatsd.Options{Host: "127.0.0.1", Port: -1, NoLog: true, NoSigs: true}
	ns, err := gnatsd.NewServer(opts)
	if err != nil {
		t.Fatalf("nats server: %v", err)
	}
	go ns.Start()
	if !ns.ReadyForConnections(10 * time.Second) {
		t.Fatalf("nats server not ready")
	}
	return ns
}

func TestVerifReplication(t *testing.T) {
	sf := vLoadStimuli(t)
	tw := vOpenTrace(t)
	defer tw.Close()
	ns := vStartNATS(t)
	defer ns.Shutdown()
	gate := newVFollowGate()
	VerifGateStopHook = gate.hook
	VerifTraceHook = vTraceHook
	defer func() { VerifGateStopHook = nil; VerifTraceHook = nil }()
	for _, b := range sf.Behaviours {
		ids := vKitIDs
		if vIntDef(b.Cfg, "rf", 3) == 1 {
			ids = []string{"a"}
		}
		k := newVKit(t, ns, gate, b.ID, int(vIntDef(b.Cfg, "minISR", 2)), int(vIntDef(b.Cfg, "fetchMax", 2)), ids, int(vIntDef(b.Cfg, "batch", 1)))
		k.gapMs = int(vIntDef(b.Cfg, "gapMs", 0))
		k.minVia = vStrDef(b.Cfg, "minVia", "server")
		k.restartVia = vStrDef(b.Cfg, "restartVia", "replay")
		k.wideEvery = int(vIntDef(b.Cfg, "wideEvery", 0))
		k.lagMs = int(vIntDef(b.Cfg, "lagMs", 0))
		k.create()
		tw.Emit(vRepEvent{T: b.ID, A: "Open", Args: map[string]interface{}{}, St: k.state(),
			Obs: map[string]interface{}{"acks": []vAck{}, "nacks": []int64{}}})
		for _, step := range b.Steps {
			ev := k.step(b.ID, step)
			tw.Emit(ev)
			if ev.A == "AwaitTick" && ev.Res == "" {
				// act on the leader's request as the controller would
				f := ev.Args["f"].(string)
				oos, in := ev.Args["outOfSync"].(bool), ev.Args["inISR"].(bool)
				if oos && in && k.isr[f] {
					tw.Emit(k.step(b.ID, map[string]interface{}{"a": "Shrink", "f": f}))
				} else if !oos && !in && !k.isr[f] {
					tw.Emit(k.step(b.ID, map[string]interface{}{"a": "Expand", "f": f}))
				}
			}
		}
		k.close()
	}
}
