//go:build verif

package server

// Lock-step replay of GroupSub.tla behaviours on the real partition.Subscribe
// (property C13: at most one active subscription per consumer group and
// partition).
//
// One one-node server (embedded NATS, single-node Raft) and one stream with
// one partition serve every behaviour; each behaviour uses its own group ids
// ("b<id>-<group>") so that behaviours do not see each other.
//
// Steps are intents:
//   Subscribe(g, c, e, bad)  apiServer.SubscribeInternal -> partition.Subscribe with a
//                            fresh cancellable context (bad = invalid positions)
//   Cancel(s)                subscription.Close() of the s-th subscription handed out
//   LoopExit(s)              make the subscribe loop of subscription s return: cancel
//                            its context, take the loop's final status if the
//                            subscription is still open (as the API handler would),
//                            wait until subscriberCount dropped (the deferred
//                            removeGroupSubscriber has run by then)
// After every step the abstract state is projected from the real objects:
// Closed() of every subscription, partition.consumers (identity of the registered
// subscription, consumer id, epoch), subscriberCount.  The verdict is TLC's
// (Trace_GroupSub.tla); this file never decides pass/fail.

import (
	"context"
	"fmt"
	"os"
	"runtime"
	"strconv"
	"strings"
	"sync"
	"sync/atomic"
	"testing"
	"time"
	"unsafe"

	client "github.com/liftbridge-io/liftbridge-api/v2/go"
	"google.golang.org/grpc/codes"
	"google.golang.org/grpc/status"
)

const vC13Deadline = 20 * time.Second

type vC13Sub struct {
	N      string `json:"n"` // serving node: L (partition leader) | F (in-sync follower)
	G      string `json:"g"`
	C      string `json:"c"`
	E      int64  `json:"e"`
	Open   bool   `json:"open"`
	Loop   bool   `json:"loop"`
	sub    *subscription
	cancel context.CancelFunc
}

type vC13Reg struct {
	S int    `json:"s"` // index (1-based) of the registered subscription, 0 none, -1 unknown object
	C string `json:"c"`
	E int64  `json:"e"`
}

type vC13State struct {
	Subs   []vC13Sub                     `json:"subs"`
	Reg    map[string]map[string]int     `json:"reg"`    // node -> group -> index
	RegCE  map[string]map[string]vC13Reg `json:"regce"`  // node -> group -> entry
	NLoops map[string]int64              `json:"nloops"` // node -> running loops
	Ldr    string                        `json:"ldr"`    // the node that leads the partition (as the servers see it)
}

type vC13Obs struct {
	A   string `json:"a"`
	Err string `json:"err"`
	ID  int    `json:"id"`
}

type vC13Event struct {
	T    int                    `json:"t"`
	A    string                 `json:"a"`
	Args map[string]interface{} `json:"args"`
	St   vC13State              `json:"st"`
	Obs  vC13Obs                `json:"obs"`
}

type vC13Run struct {
	t      *testing.T
	srv    map[string]*Server    // L, F
	p      map[string]*partition // each server's own partition object
	stream string
	id     int
	groups []string
	subs   []*vC13Sub
	base   map[string]int64 // subscriberCount of each partition object before the behaviour
	// the leadership as the driver arranged it (only an Elect step changes it): a
	// leader change nobody asked for (timeouts on a loaded machine) makes the run
	// inconclusive
	expLeader string
	expEpoch  uint64
	all       []*Server
	fifo      int // Race steps in which the mutex was seen in FIFO hand-over mode
}

var vC13Nodes = []string{"L", "F"}

func vC13Count(p *partition) int64 {
	p.mu.RLock()
	defer p.mu.RUnlock()
	return p.subscriberCount
}

func (r *vC13Run) waitCount(n string, want int64, what string) {
	deadline := time.Now().Add(vC13Deadline)
	for {
		if vC13Count(r.p[n]) == want {
			return
		}
		if time.Now().After(deadline) {
			r.t.Fatalf("INCONCLUSIVE: behaviour %d: %s: subscriberCount[%s]=%d, waited for %d",
				r.id, what, n, vC13Count(r.p[n]), want)
		}
		time.Sleep(20 * time.Microsecond)
	}
}

func (r *vC13Run) realGroup(g string) string {
	if g == "" {
		return ""
	}
	return fmt.Sprintf("b%d-%s", r.id, g)
}

func vIsClosed(s *subscription) bool {
	select {
	case <-s.Closed():
		return true
	default:
		return false
	}
}

func (r *vC13Run) state() vC13State {
	st := vC13State{Subs: []vC13Sub{}, Reg: map[string]map[string]int{},
		RegCE: map[string]map[string]vC13Reg{}, NLoops: map[string]int64{}}
	for _, s := range r.subs {
		c := *s
		c.Open = !vIsClosed(s.sub)
		st.Subs = append(st.Subs, c)
	}
	for _, n := range vC13Nodes {
		st.Reg[n], st.RegCE[n] = map[string]int{}, map[string]vC13Reg{}
		for _, g := range r.groups {
			m := r.p[n].GetGroupConsumer(r.realGroup(g))
			if m == nil {
				st.Reg[n][g] = 0
				st.RegCE[n][g] = vC13Reg{}
				continue
			}
			idx := -1
			for i, s := range r.subs {
				if s.sub == m.sub {
					idx = i + 1
				}
			}
			st.Reg[n][g] = idx
			st.RegCE[n][g] = vC13Reg{S: idx, C: m.consumerID, E: int64(m.groupEpoch)}
		}
		st.NLoops[n] = vC13Count(r.p[n]) - r.base[n]
	}
	st.Ldr = r.leaderNode()
	return st
}

// leaderNode: the node whose own partition object names it as the leader ("?" if
// the two servers disagree)
func (r *vC13Run) leaderNode() string {
	out := "?"
	for _, n := range vC13Nodes {
		if l, _ := r.p[n].GetLeader(); l == r.srv[n].config.Clustering.ServerID {
			if out != "?" {
				return "?"
			}
			out = n
		}
	}
	return out
}

// checkEnv: nothing but the driver's own Elect steps may have moved the leadership
func (r *vC13Run) checkEnv(what string) {
	for _, n := range vC13Nodes {
		if l, e := r.p[n].GetLeader(); l != r.expLeader || e != r.expEpoch {
			r.t.Fatalf("INCONCLUSIVE: behaviour %d: %s: leadership moved by itself (server %s sees leader %s epoch %d, arranged %s epoch %d)",
				r.id, what, n, l, e, r.expLeader, r.expEpoch)
		}
	}
}

// adopt files the subscription a subscribe call returned: the subscriptions of the
// recorded state are the REAL objects - a call that hands out an object that was
// handed out before creates no new subscription (index of the old one, false).
func (r *vC13Run) adopt(sub *subscription, x *vC13Sub) (int, bool) {
	for i, s := range r.subs {
		if s.sub == sub {
			return i + 1, false
		}
	}
	x.sub = sub
	r.subs = append(r.subs, x)
	return len(r.subs), true
}

func (r *vC13Run) request(q map[string]interface{}, step map[string]interface{}) *client.SubscribeRequest {
	g, c, e, bad, stop := vStr(q, "g"), vStr(q, "c"), vInt(q, "e"), vBool(q, "bad"), vStr(q, "stop")
	req := &client.SubscribeRequest{
		Stream:         r.stream,
		Partition:      0,
		StartPosition:  client.StartPosition_NEW_ONLY,
		ReadISRReplica: vBool(q, "ris"),
	}
	if g != "" {
		req.Consumer = &client.Consumer{GroupId: r.realGroup(g), GroupEpoch: uint64(e), ConsumerId: c}
	}
	if stop != "none" {
		// a stop position that is not reached (the log is empty): the
		// subscription keeps running like an open-ended one
		req.StopPosition = client.StopPosition_STOP_OFFSET
		req.StopOffset = vIntDef(step, "stopoff", 1000)
	}
	if bad {
		switch vStrDef(step, "badkind", "start") {
		case "start":
			req.StartPosition = client.StartPosition(99)
		case "stoplatest": // the stream is empty
			req.StopPosition = client.StopPosition_STOP_LATEST
		default: // stop offset before the start offset
			req.StartPosition = client.StartPosition_OFFSET
			req.StartOffset = 5
			req.StopPosition = client.StopPosition_STOP_OFFSET
			req.StopOffset = 2
		}
	}
	return req
}

// vMutexWaiters reads the number of goroutines parked on a sync.Mutex (state >> 3).
// Only used to pace a Race step (which schedule is explored); never for a verdict.
func vMutexWaiters(m *sync.Mutex) int32 {
	return atomic.LoadInt32((*int32)(unsafe.Pointer(m))) >> 3
}

// vLoopGoroutines: ids of the goroutines that run a subscribe loop right now (from a
// stack dump of the process).  A Race step ends one loop and may start another, so
// subscriberCount alone cannot tell "both happened" from "neither happened yet".
func vLoopGoroutines() map[int]bool {
	buf := make([]byte, 1<<20)
	for {
		n := runtime.Stack(buf, true)
		if n < len(buf) {
			buf = buf[:n]
			break
		}
		buf = make([]byte, 2*len(buf))
	}
	out := map[int]bool{}
	for _, blk := range strings.Split(string(buf), "\n\n") {
		if !strings.Contains(blk, "newSubscribeLoop.func1") {
			continue
		}
		f := strings.Fields(blk)
		if len(f) >= 2 && f[0] == "goroutine" {
			if id, err := strconv.Atoi(f[1]); err == nil {
				out[id] = true
			}
		}
	}
	return out
}

// vWaitStarving waits (briefly) until the mutex is in starvation mode (state bit 4)
func vWaitStarving(m *sync.Mutex) bool {
	deadline := time.Now().Add(200 * time.Millisecond)
	for time.Now().Before(deadline) {
		if atomic.LoadInt32((*int32)(unsafe.Pointer(m)))&4 != 0 {
			return true
		}
		time.Sleep(20 * time.Microsecond)
	}
	return false
}

func vWaitWaiters(m *sync.Mutex, n int32) {
	deadline := time.Now().Add(200 * time.Millisecond)
	for vMutexWaiters(m) < n && time.Now().Before(deadline) {
		time.Sleep(20 * time.Microsecond)
	}
}

func vC13ErrClass(err error) string {
	if err == nil {
		return ""
	}
	st, ok := status.FromError(err)
	if !ok {
		return "other:" + err.Error()
	}
	switch st.Code() {
	case codes.FailedPrecondition:
		if st.Message() == "Consumer is not currently assigned this partition" {
			return "stale"
		}
		if st.Message() == "Server not partition leader" {
			return "notleader"
		}
		return "other:" + st.Message()
	case codes.InvalidArgument, codes.ResourceExhausted:
		return "invalid"
	}
	return "other:" + st.Code().String() + ":" + st.Message()
}

func (r *vC13Run) step(step map[string]interface{}) vC13Event {
	a := vStr(step, "a")
	args := map[string]interface{}{}
	obs := vC13Obs{A: a}
	func() {
		defer func() {
			if p := recover(); p != nil {
				obs.Err = fmt.Sprintf("panic:%v", p)
			}
		}()
		switch a {
		case "Subscribe":
			q := step["q"].(map[string]interface{})
			n, ris := vStr(q, "n"), vBool(q, "ris")
			g, c, e, bad, stop := vStr(q, "g"), vStr(q, "c"), vInt(q, "e"), vBool(q, "bad"), vStr(q, "stop")
			_ = ris
			args["q"] = map[string]interface{}{"n": n, "ris": ris, "g": g, "c": c, "e": e, "bad": bad, "stop": stop}
			req := r.request(q, step)
			before := vC13Count(r.p[n])
			ctx, cancel := context.WithCancel(context.Background())
			sub, err := r.srv[n].api.SubscribeInternal(ctx, req)
			obs.Err = vC13ErrClass(err)
			if err != nil || sub == nil {
				cancel()
				return
			}
			id, isNew := r.adopt(sub, &vC13Sub{N: n, G: g, C: c, E: e, Loop: true, cancel: cancel})
			obs.ID = id
			if !isNew {
				// the call handed out a subscription that exists already: nothing new runs
				cancel()
				return
			}
			// the loop goroutine registers itself asynchronously
			r.waitCount(n, before+1, "loop start")
		case "Burst":
			// the consumers subscribe CONCURRENTLY (goroutines released together)
			g, e := vStr(step, "g"), vInt(step, "e")
			cs := []string{}
			for _, x := range step["cs"].([]interface{}) {
				cs = append(cs, x.(string))
			}
			args["g"], args["cs"], args["e"] = g, cs, e
			type res struct {
				sub    *subscription
				err    error
				cancel context.CancelFunc
			}
			out := make([]res, len(cs))
			start := make(chan struct{})
			var wg sync.WaitGroup
			ln := r.leaderNode()
			if ln == "?" {
				r.t.Fatalf("INCONCLUSIVE: behaviour %d: no agreed leader", r.id)
			}
			before := vC13Count(r.p[ln])
			for i := range cs {
				wg.Add(1)
				go func(i int) {
					defer wg.Done()
					req := &client.SubscribeRequest{
						Stream:        r.stream,
						Partition:     0,
						StartPosition: client.StartPosition_NEW_ONLY,
						Consumer:      &client.Consumer{GroupId: r.realGroup(g), GroupEpoch: uint64(e), ConsumerId: cs[i]},
					}
					ctx, cancel := context.WithCancel(context.Background())
					<-start
					sub, err := r.srv[ln].api.SubscribeInternal(ctx, req)
					out[i] = res{sub, err, cancel}
				}(i)
			}
			if vStrDef(step, "mode", "free") == "convoy" {
				// like Race: all subscribes park on consumersMu, then it is handed over in
				// FIFO order (a subscribe that lets go of the mutex in the middle and takes it
				// again queues behind the others)
				m := &r.p[ln].consumersMu
				m.Lock()
				w0 := vMutexWaiters(m)
				close(start)
				vWaitWaiters(m, w0+int32(len(cs)))
				time.Sleep(1500 * time.Microsecond)
				m.Unlock()
				m.Lock()
				if vWaitStarving(m) {
					r.fifo++
				}
				m.Unlock()
			} else {
				close(start)
			}
			wg.Wait()
			accepted, classes := 0, map[string]bool{}
			for i, o := range out {
				classes[vC13ErrClass(o.err)] = true
				if o.err != nil || o.sub == nil {
					o.cancel()
					continue
				}
				if _, isNew := r.adopt(o.sub, &vC13Sub{N: ln, G: g, C: cs[i], E: e, Loop: true, cancel: o.cancel}); isNew {
					accepted++
				} else {
					classes["handed-out-twice"] = true
				}
			}
			switch {
			case len(classes) > 1:
				obs.Err = "mixed"
			case accepted == 0:
				obs.Err = vC13ErrClass(out[0].err)
			default:
				obs.ID = accepted
			}
			r.waitCount(ln, before+int64(accepted), "burst loops start")
		case "Cancel":
			s := int(vInt(step, "s"))
			args["s"] = s
			if s < 1 || s > len(r.subs) {
				obs.A, a = "Skip", "Skip"
				return
			}
			r.subs[s-1].sub.Close()
			obs.ID = s
		case "LoopExit":
			s := int(vInt(step, "s"))
			args["s"] = s
			if s < 1 || s > len(r.subs) || !r.subs[s-1].Loop {
				obs.A, a = "Skip", "Skip"
				return
			}
			r.exitLoop(r.subs[s-1])
			obs.ID = s
		case "Race":
			// The clean-up of the ending subscription s and the subscribe q contend for
			// consumersMu AT THE SAME TIME.  The driver holds the mutex, lets both park on
			// it (in the order `first` names), keeps them waiting beyond sync.Mutex's
			// starvation threshold and then hands the mutex over: it is now passed on in
			// strict FIFO order, so whenever one contender releases it and takes it again
			// (a critical section split in two), the other one runs in between.  Which
			// schedule results is exploration; the quiescent state afterwards is judged.
			s := int(vInt(step, "s"))
			args["s"] = s
			q, ok := step["q"].(map[string]interface{})
			if !ok {
				// the request is given by consumer and epoch: same server, same group as s
				q = map[string]interface{}{"n": "L", "ris": false, "g": "", "c": vStr(step, "c"), "e": step["e"],
					"bad": false, "stop": "none"}
				if s >= 1 && s <= len(r.subs) {
					q["n"], q["g"] = r.subs[s-1].N, r.subs[s-1].G
				}
			}
			n, g, c, e := vStr(q, "n"), vStr(q, "g"), vStr(q, "c"), vInt(q, "e")
			args["q"] = map[string]interface{}{"n": n, "ris": vBool(q, "ris"), "g": g, "c": c, "e": e,
				"bad": vBool(q, "bad"), "stop": vStr(q, "stop")}
			if s < 1 || s > len(r.subs) || !r.subs[s-1].Loop || r.subs[s-1].N != n {
				obs.A, a = "Skip", "Skip"
				return
			}
			x := r.subs[s-1]
			p := r.p[n]
			req := r.request(q, step)
			before := vC13Count(p)
			// the set of loop goroutines to compare with must hold no goroutine that is on
			// its way out (subscriberCount is decremented a moment before the goroutine is
			// gone): wait until every loop goroutine of the process is a counted one
			loopsBefore := vLoopGoroutines()
			for dl := time.Now().Add(vC13Deadline); int64(len(loopsBefore)) != vC13Count(r.p["L"])+vC13Count(r.p["F"]); loopsBefore = vLoopGoroutines() {
				if time.Now().After(dl) {
					r.t.Fatalf("INCONCLUSIVE: behaviour %d: %d loop goroutines, subscriberCount %d + %d", r.id,
						len(loopsBefore), vC13Count(r.p["L"]), vC13Count(r.p["F"]))
				}
				time.Sleep(50 * time.Microsecond)
			}
			exitFirst := vStrDef(step, "first", "exit") == "exit"
			var (
				sub    *subscription
				err    error
				done   = make(chan struct{})
				stop   = make(chan struct{})
				ctx, cancel = context.WithCancel(context.Background())
			)
			startExit := func() {
				x.cancel()
				go func() { // the API handler: takes the loop's final status
					for {
						select {
						case <-x.sub.Errors():
						case <-x.sub.Messages():
						case <-stop:
							return
						}
					}
				}()
			}
			startSub := func() {
				go func() {
					defer close(done)
					defer func() { // a panic of the real code is an observation
						if p := recover(); p != nil {
							sub, err = nil, fmt.Errorf("panic:%v", p)
						}
					}()
					sub, err = r.srv[n].api.SubscribeInternal(ctx, req)
				}()
			}
			p.consumersMu.Lock()
			w0 := vMutexWaiters(&p.consumersMu)
			if exitFirst {
				startExit()
				vWaitWaiters(&p.consumersMu, w0+1)
				startSub()
			} else {
				startSub()
				vWaitWaiters(&p.consumersMu, w0+1)
				startExit()
			}
			vWaitWaiters(&p.consumersMu, w0+2)
			time.Sleep(1500 * time.Microsecond) // beyond the starvation threshold (1 ms)
			p.consumersMu.Unlock()
			// barge in: the woken waiter finds the mutex taken, switches it to FIFO hand-over
			// (starvation mode) and parks again; then let go
			p.consumersMu.Lock()
			if vWaitStarving(&p.consumersMu) {
				r.fifo++
			}
			p.consumersMu.Unlock()
			select {
			case <-done:
			case <-time.After(vC13Deadline):
				close(stop)
				r.t.Fatalf("INCONCLUSIVE: behaviour %d: racing subscribe did not return", r.id)
			}
			accepted := int64(0)
			obs.Err = vC13ErrClass(err)
			if err != nil || sub == nil {
				cancel()
			} else {
				id, isNew := r.adopt(sub, &vC13Sub{N: n, G: g, C: c, E: e, Loop: true, cancel: cancel})
				obs.ID = id
				if isNew {
					accepted = 1
				} else {
					cancel()
				}
			}
			// quiescence: exactly one of the loops that ran before is gone, the new loop (if
			// any) runs, and subscriberCount has settled
			deadline := time.Now().Add(vC13Deadline)
			for {
				gone, fresh := 0, 0
				now := vLoopGoroutines()
				for id := range loopsBefore {
					if !now[id] {
						gone++
					}
				}
				for id := range now {
					if !loopsBefore[id] {
						fresh++
					}
				}
				if gone == 1 && int64(fresh) == accepted && vC13Count(p) == before-1+accepted {
					break
				}
				if time.Now().After(deadline) {
					close(stop)
					r.t.Fatalf("INCONCLUSIVE: behaviour %d: race did not settle (loops gone %d, new %d, accepted %d, subscriberCount %d, before %d)",
						r.id, gone, fresh, accepted, vC13Count(p), before)
				}
				time.Sleep(50 * time.Microsecond)
			}
			close(stop)
			x.Loop = false
		case "Elect":
			r.elect(&obs)
		default:
			r.t.Fatalf("unknown action %q", a)
		}
	}()
	r.checkEnv("after " + a)
	return vC13Event{T: r.id, A: a, Args: args, St: r.state(), Obs: obs}
}

// elect: the controller elects the other in-sync replica, through the real
// metadataAPI.electNewPartitionLeader (Raft operation CHANGE_LEADER applied on both
// servers); returns when both servers run in their new roles.
func (r *vC13Run) elect(obs *vC13Obs) {
	cur := r.leaderNode()
	var ms *Server
	deadline := time.Now().Add(vC13Deadline)
	for ms == nil {
		for _, s := range r.all {
			if s.IsLeader() {
				ms = s
			}
		}
		if ms == nil {
			if time.Now().After(deadline) {
				r.t.Fatalf("INCONCLUSIVE: behaviour %d: no metadata leader", r.id)
			}
			time.Sleep(time.Millisecond)
		}
	}
	mp := ms.metadata.GetPartition(r.stream, 0)
	for mp == nil || len(mp.GetISR()) < 2 || cur == "?" {
		if time.Now().After(deadline) {
			r.t.Fatalf("INCONCLUSIVE: behaviour %d: the follower is not in the ISR (or no agreed leader)", r.id)
		}
		time.Sleep(time.Millisecond)
		mp = ms.metadata.GetPartition(r.stream, 0)
		cur = r.leaderNode()
	}
	leader, epoch := mp.GetLeader()
	ctx, cancel := context.WithTimeout(context.Background(), vC13Deadline)
	defer cancel()
	if st := ms.metadata.electNewPartitionLeader(ctx, mp, leader, epoch); st != nil {
		if ctx.Err() != nil {
			r.t.Fatalf("INCONCLUSIVE: behaviour %d: election timed out: %v", r.id, st.Message())
		}
		obs.Err = "refused:" + st.Message()
		return
	}
	next := "L"
	if cur == "L" {
		next = "F"
	}
	want := r.srv[next].config.Clustering.ServerID
	for {
		la, ea := r.p["L"].GetLeader()
		lb, eb := r.p["F"].GetLeader()
		if la == want && lb == want && ea == eb && r.p[next].IsLeader() && r.p[cur].isFollowingNow() {
			r.expLeader, r.expEpoch = want, ea
			return
		}
		if time.Now().After(deadline) {
			r.t.Fatalf("INCONCLUSIVE: behaviour %d: the servers did not take their new roles", r.id)
		}
		time.Sleep(50 * time.Microsecond)
	}
}

// exitLoop makes the subscribe loop of x return and waits for its deferred
// clean-up.  The loop leaves ReadMessage when its context ends and then either
// sees the closed subscription or hands its final status to whoever reads the
// error channel (the API handler) - the harness plays that reader.
func (r *vC13Run) exitLoop(x *vC13Sub) {
	before := vC13Count(r.p[x.N])
	x.cancel()
	deadline := time.After(vC13Deadline)
	for vC13Count(r.p[x.N]) != before-1 {
		select {
		case <-x.sub.Errors():
		case <-x.sub.Messages():
		case <-deadline:
			r.t.Fatalf("INCONCLUSIVE: behaviour %d: loop did not exit", r.id)
		case <-time.After(20 * time.Microsecond):
		}
	}
	x.Loop = false
}

func (r *vC13Run) finish() {
	for _, x := range r.subs {
		x.sub.Close()
		if x.Loop {
			r.exitLoop(x)
		} else {
			x.cancel()
		}
	}
	for _, n := range vC13Nodes {
		r.waitCount(n, r.base[n], "end of behaviour")
	}
}

func TestVerifGroupSub(t *testing.T) {
	sf := vLoadStimuli(t)
	tw := vOpenTrace(t)
	defer tw.Close()

	defer os.RemoveAll(storagePath)
	// two servers: the stream is replicated on both, one leads the partition, the
	// other follows it (and has its own partition object and group table)
	cfgA := vOneNodeConfig(t, "a")
	srvA := vOneNodeServer(t, cfgA)
	var srvB *Server
	// Server.Stop waits for ever when subscriptions were left open (a run that ended
	// with INCONCLUSIVE in the middle of a behaviour): give up after a while instead of
	// sitting there until the test timeout
	defer func() {
		done := make(chan struct{})
		go func() {
			if srvB != nil {
				srvB.Stop()
			}
			srvA.Stop()
			close(done)
		}()
		select {
		case <-done:
		case <-time.After(15 * time.Second):
			fmt.Fprintln(os.Stderr, "c13: the servers do not stop (subscriptions left open); giving up")
		}
	}()
	var err error
	srvB, err = RunServerWithConfig(vJoinConfig(t, "b", cfgA))
	if err != nil {
		srvB = nil
		t.Fatalf("INCONCLUSIVE: second server did not start: %v", err)
	}

	stream := "c13"
	deadline := time.Now().Add(3 * vC13Deadline)
	for {
		_, err := srvA.api.CreateStream(context.Background(),
			&client.CreateStreamRequest{Name: stream, Subject: "c13", ReplicationFactor: 2})
		if err == nil {
			break
		}
		// the second server may not have joined the cluster yet
		if time.Now().After(deadline) {
			t.Fatalf("INCONCLUSIVE: create stream: %v", err)
		}
		time.Sleep(50 * time.Millisecond)
	}
	// "L" = the server that leads the partition when a behaviour starts, "F" the other
	// (identities for the whole behaviour, whatever the Elect steps do)
	roles := func() (map[string]*Server, map[string]*partition, string, uint64) {
		deadline := time.Now().Add(3 * vC13Deadline)
		for {
			pa, pb := srvA.metadata.GetPartition(stream, 0), srvB.metadata.GetPartition(stream, 0)
			if pa != nil && pb != nil {
				la, ea := pa.GetLeader()
				lb, eb := pb.GetLeader()
				if la == lb && ea == eb && la == "a" && pa.IsLeader() && pb.isFollowingNow() {
					return map[string]*Server{"L": srvA, "F": srvB}, map[string]*partition{"L": pa, "F": pb}, la, ea
				}
				if la == lb && ea == eb && la == "b" && pb.IsLeader() && pa.isFollowingNow() {
					return map[string]*Server{"L": srvB, "F": srvA}, map[string]*partition{"L": pb, "F": pa}, la, ea
				}
			}
			if time.Now().After(deadline) {
				t.Fatalf("INCONCLUSIVE: partition did not start on both servers")
			}
			time.Sleep(time.Millisecond)
		}
	}

	races, elects, fifo := 0, 0, 0
	for _, b := range sf.Behaviours {
		srv, p, leader, epoch := roles()
		run := &vC13Run{t: t, srv: srv, p: p, stream: stream, id: b.ID, all: []*Server{srvA, srvB},
			expLeader: leader, expEpoch: epoch,
			base: map[string]int64{"L": vC13Count(p["L"]), "F": vC13Count(p["F"])}}
		for _, g := range b.Cfg["groups"].([]interface{}) {
			run.groups = append(run.groups, g.(string))
		}
		tw.Emit(vC13Event{T: b.ID, A: "Open", Args: map[string]interface{}{}, St: run.state(),
			Obs: vC13Obs{A: "Open"}})
		for _, step := range b.Steps {
			ev := run.step(step)
			switch ev.A {
			case "Race":
				races++
			case "Elect":
				elects++
			}
			tw.Emit(ev)
		}
		run.finish()
		fifo += run.fifo
	}
	fmt.Fprintf(os.Stderr, "c13: %d behaviours, %d Race steps (%d with FIFO hand-over of consumersMu), %d Elect steps executed\n",
		len(sf.Behaviours), races, fifo, elects)
}

// isFollowingNow: the partition object runs its follower loop
func (p *partition) isFollowingNow() bool {
	p.mu.RLock()
	defer p.mu.RUnlock()
	return p.isFollowing
}
