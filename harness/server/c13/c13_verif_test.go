//go:build verif

package server

// Lock-step replay of GroupSub.tla behaviours on the real partition.Subscribe
// (property C13: at most one active subscription per consumer group and
// partition).
//
// One one-node server (embedded NATS, single-node Raft) and one stream with
// one partition serve every behaviour; each behaviour uses its own group ids
// ("b<id>-<group>") so that behaviours do not see each other.
//
// Steps are intents:
//   Subscribe(g, c, e, bad)  apiServer.SubscribeInternal -> partition.Subscribe with a
//                            fresh cancellable context (bad = invalid positions)
//   Cancel(s)                subscription.Close() of the s-th subscription handed out
//   LoopExit(s)              make the subscribe loop of subscription s return: cancel
//                            its context, take the loop's final status if the
//                            subscription is still open (as the API handler would),
//                            wait until subscriberCount dropped (the deferred
//                            removeGroupSubscriber has run by then)
// After every step the abstract state is projected from the real objects:
// Closed() of every subscription, partition.consumers (identity of the registered
// subscription, consumer id, epoch), subscriberCount.  The verdict is TLC's
// (Trace_GroupSub.tla); this file never decides pass/fail.

import (
	"context"
	"fmt"
	"os"
	"runtime"
	"strconv"
	"strings"
	"sync"
	"sync/atomic"
	"testing"
	"time"
	"unsafe"

	client "github.com/liftbridge-io/liftbridge-api/v2/go"
	proto "github.com/liftbridge-io/liftbridge/server/protocol"
	"google.golang.org/grpc/metadata"
	"google.golang.org/grpc/codes"
	"google.golang.org/grpc/status"
)

const vC13Deadline = 20 * time.Second

type vC13Sub struct {
	N      string `json:"n"` // serving node: L (partition leader) | F (in-sync follower)
	G      string `json:"g"`
	C      string `json:"c"`
	E      int64  `json:"e"`
	Open   bool   `json:"open"`
	Loop   bool   `json:"loop"`
	Strm   string `json:"strm"` // client stream of a subscription made through the gRPC handler: open | ended; none
	sub    *subscription
	cancel context.CancelFunc
	h      *vC13Handler // the gRPC handler call serving it (nil = made through SubscribeInternal)
}

// vC13Stream is the server side of a client's Subscribe stream, as gRPC hands it to
// apiServer.Subscribe; what the handler sends is what the client receives.
type vC13Stream struct {
	ctx   context.Context
	first chan struct{} // closed at the first Send (the empty message: subscription created)
	once  sync.Once
	mu    sync.Mutex
	sent  int
}

func (m *vC13Stream) Send(*client.Message) error {
	m.mu.Lock()
	m.sent++
	m.mu.Unlock()
	m.once.Do(func() { close(m.first) })
	return nil
}
func (m *vC13Stream) SetHeader(metadata.MD) error  { return nil }
func (m *vC13Stream) SendHeader(metadata.MD) error { return nil }
func (m *vC13Stream) SetTrailer(metadata.MD)       {}
func (m *vC13Stream) Context() context.Context     { return m.ctx }
func (m *vC13Stream) SendMsg(interface{}) error    { return nil }
func (m *vC13Stream) RecvMsg(interface{}) error    { return nil }

// vC13Handler is one call of the real gRPC handler apiServer.Subscribe
type vC13Handler struct {
	gid  int           // goroutine of the call
	done chan struct{} // closed when the handler returned (the client's stream ended)
	err  error
	out  *vC13Stream
}

func vGoroutineID() int {
	buf := make([]byte, 64)
	f := strings.Fields(string(buf[:runtime.Stack(buf, false)]))
	if len(f) >= 2 {
		id, _ := strconv.Atoi(f[1])
		return id
	}
	return -1
}

// vParkedInSelect: goroutine gid is WAITING in a select (from a stack dump).  A select
// with a ready case never parks and closing a channel makes its waiters runnable at
// once, so a handler still parked in its select after its subscription was closed
// does not look at `closed` at all - an observation, not a matter of timing.
func vParkedInSelect(gid int) bool {
	buf := make([]byte, 1<<20)
	for {
		n := runtime.Stack(buf, true)
		if n < len(buf) {
			buf = buf[:n]
			break
		}
		buf = make([]byte, 2*len(buf))
	}
	return strings.Contains(string(buf), fmt.Sprintf("goroutine %d [select", gid))
}

// settleStreams: every handler whose subscription is closed has returned, or is seen
// (twice) parked in a select that ignores the closed subscription.
func (r *vC13Run) settleStreams() {
	for _, x := range r.subs {
		if x.h == nil || !vIsClosed(x.sub) {
			continue
		}
		deadline := time.Now().Add(vC13Deadline)
		parked := 0
		for {
			select {
			case <-x.h.done:
			default:
				if vParkedInSelect(x.h.gid) {
					parked++
				} else {
					parked = 0
				}
				if parked >= 2 {
					break
				}
				if time.Now().After(deadline) {
					r.t.Fatalf("INCONCLUSIVE: behaviour %d: handler of a closed subscription neither returned nor parked", r.id)
				}
				time.Sleep(2 * time.Millisecond)
				continue
			}
			break
		}
	}
}

type vC13Reg struct {
	S int    `json:"s"` // index (1-based) of the registered subscription, 0 none, -1 unknown object
	C string `json:"c"`
	E int64  `json:"e"`
}

type vC13State struct {
	Subs   []vC13Sub                     `json:"subs"`
	Reg    map[string]map[string]int     `json:"reg"`    // node -> group -> index
	RegCE  map[string]map[string]vC13Reg `json:"regce"`  // node -> group -> entry
	NLoops map[string]int64              `json:"nloops"` // node -> running loops
	Ldr    string                        `json:"ldr"`    // the node that leads the partition (as the servers see it)
}

type vC13Obs struct {
	A   string `json:"a"`
	Err string `json:"err"`
	ID  int    `json:"id"`
}

type vC13Event struct {
	T    int                    `json:"t"`
	A    string                 `json:"a"`
	Args map[string]interface{} `json:"args"`
	St   vC13State              `json:"st"`
	Obs  vC13Obs                `json:"obs"`
}

type vC13Run struct {
	t      *testing.T
	srv    map[string]*Server    // L, F
	p      map[string]*partition // each server's own partition object
	stream string
	id     int
	groups []string
	subs   []*vC13Sub
	base   map[string]int64 // subscriberCount of each partition object before the behaviour
	// the leadership as the driver arranged it (only an Elect step changes it): a
	// leader change nobody asked for (timeouts on a loaded machine) makes the run
	// inconclusive
	expLeader string
	expEpoch  uint64
	all       []*Server
	later     map[string][]*partition // partition objects that appeared during the behaviour, per server
	fifo      int // Race steps in which the mutex was seen in FIFO hand-over mode
}

var vC13Nodes = []string{"L", "F"}

func vC13Count(p *partition) int64 {
	p.mu.RLock()
	defer p.mu.RUnlock()
	return p.subscriberCount
}

// cur: the partition OBJECT server n works with now (the metadata's); r.p[n] is the
// one it worked with when the behaviour started.  They differ when the object was
// replaced (pause / resume) - subscriptions stay with the object that created them.
func (r *vC13Run) cur(n string) *partition {
	p := r.srv[n].metadata.GetPartition(r.stream, 0)
	if p == nil {
		return r.p[n]
	}
	if p != r.p[n] {
		known := false
		for _, o := range r.later[n] {
			known = known || o == p
		}
		if !known {
			if r.later == nil {
				r.later = map[string][]*partition{}
			}
			r.later[n] = append(r.later[n], p)
		}
	}
	return p
}

// count: loops running on the partition objects of server n (the one of the start
// of the behaviour and, if it was replaced, the current one)
func (r *vC13Run) count(n string) int64 {
	r.cur(n)
	c := vC13Count(r.p[n])
	for _, o := range r.later[n] {
		c += vC13Count(o)
	}
	return c
}

func (r *vC13Run) waitCount(n string, want int64, what string) {
	deadline := time.Now().Add(vC13Deadline)
	for {
		if r.count(n) == want {
			return
		}
		if time.Now().After(deadline) {
			r.t.Fatalf("INCONCLUSIVE: behaviour %d: %s: subscriberCount[%s]=%d, waited for %d",
				r.id, what, n, r.count(n), want)
		}
		time.Sleep(20 * time.Microsecond)
	}
}

func (r *vC13Run) realGroup(g string) string {
	if g == "" {
		return ""
	}
	return fmt.Sprintf("b%d-%s", r.id, g)
}

func vIsClosed(s *subscription) bool {
	select {
	case <-s.Closed():
		return true
	default:
		return false
	}
}

func (r *vC13Run) state() vC13State {
	st := vC13State{Subs: []vC13Sub{}, Reg: map[string]map[string]int{},
		RegCE: map[string]map[string]vC13Reg{}, NLoops: map[string]int64{}}
	for _, s := range r.subs {
		c := *s
		c.Open = !vIsClosed(s.sub)
		c.Strm = "none"
		if s.h != nil {
			c.Strm = "open"
			select {
			case <-s.h.done:
				c.Strm = "ended"
			default:
			}
		}
		st.Subs = append(st.Subs, c)
	}
	for _, n := range vC13Nodes {
		st.Reg[n], st.RegCE[n] = map[string]int{}, map[string]vC13Reg{}
		for _, g := range r.groups {
			m := r.cur(n).GetGroupConsumer(r.realGroup(g))
			if m == nil {
				st.Reg[n][g] = 0
				st.RegCE[n][g] = vC13Reg{}
				continue
			}
			idx := -1
			for i, s := range r.subs {
				if s.sub == m.sub {
					idx = i + 1
				}
			}
			st.Reg[n][g] = idx
			st.RegCE[n][g] = vC13Reg{S: idx, C: m.consumerID, E: int64(m.groupEpoch)}
		}
		st.NLoops[n] = r.count(n) - r.base[n]
	}
	st.Ldr = r.leaderNode()
	return st
}

// leaderNode: the node whose own partition object names it as the leader ("?" if
// the two servers disagree)
func (r *vC13Run) leaderNode() string {
	out := "?"
	for _, n := range vC13Nodes {
		if l, _ := r.cur(n).GetLeader(); l == r.srv[n].config.Clustering.ServerID {
			if out != "?" {
				return "?"
			}
			out = n
		}
	}
	return out
}

// checkEnv: nothing but the driver's own Elect steps may have moved the leadership
func (r *vC13Run) checkEnv(what string) {
	for _, n := range vC13Nodes {
		if l, e := r.cur(n).GetLeader(); l != r.expLeader || e != r.expEpoch {
			r.t.Fatalf("INCONCLUSIVE: behaviour %d: %s: leadership moved by itself (server %s sees leader %s epoch %d, arranged %s epoch %d)",
				r.id, what, n, l, e, r.expLeader, r.expEpoch)
		}
	}
}

// adopt files the subscription a subscribe call returned: the subscriptions of the
// recorded state are the REAL objects - a call that hands out an object that was
// handed out before creates no new subscription (index of the old one, false).
func (r *vC13Run) adopt(sub *subscription, x *vC13Sub) (int, bool) {
	for i, s := range r.subs {
		if s.sub == sub {
			return i + 1, false
		}
	}
	x.sub = sub
	r.subs = append(r.subs, x)
	return len(r.subs), true
}

func (r *vC13Run) request(q map[string]interface{}, step map[string]interface{}) *client.SubscribeRequest {
	g, c, e, bad, stop := vStr(q, "g"), vStr(q, "c"), vInt(q, "e"), vBool(q, "bad"), vStr(q, "stop")
	req := &client.SubscribeRequest{
		Stream:         r.stream,
		Partition:      0,
		StartPosition:  client.StartPosition_NEW_ONLY,
		ReadISRReplica: vBool(q, "ris"),
	}
	if g != "" {
		req.Consumer = &client.Consumer{GroupId: r.realGroup(g), GroupEpoch: uint64(e), ConsumerId: c}
	}
	if stop != "none" {
		// a stop position that is not reached (the log is empty): the
		// subscription keeps running like an open-ended one
		req.StopPosition = client.StopPosition_STOP_OFFSET
		req.StopOffset = vIntDef(step, "stopoff", 1000)
	}
	if bad {
		switch vStrDef(step, "badkind", "start") {
		case "start":
			req.StartPosition = client.StartPosition(99)
		case "stoplatest": // the stream is empty
			req.StopPosition = client.StopPosition_STOP_LATEST
		default: // stop offset before the start offset
			req.StartPosition = client.StartPosition_OFFSET
			req.StartOffset = 5
			req.StopPosition = client.StopPosition_STOP_OFFSET
			req.StopOffset = 2
		}
	}
	return req
}

// vMutexWaiters reads the number of goroutines parked on a sync.Mutex (state >> 3).
// Only used to pace a Race step (which schedule is explored); never for a verdict.
func vMutexWaiters(m *sync.Mutex) int32 {
	return atomic.LoadInt32((*int32)(unsafe.Pointer(m))) >> 3
}

// vLoopGoroutines: ids of the goroutines that run a subscribe loop right now (from a
// stack dump of the process).  A Race step ends one loop and may start another, so
// subscriberCount alone cannot tell "both happened" from "neither happened yet".
func vLoopGoroutines() map[int]bool {
	buf := make([]byte, 1<<20)
	for {
		n := runtime.Stack(buf, true)
		if n < len(buf) {
			buf = buf[:n]
			break
		}
		buf = make([]byte, 2*len(buf))
	}
	out := map[int]bool{}
	for _, blk := range strings.Split(string(buf), "\n\n") {
		if !strings.Contains(blk, "newSubscribeLoop.func1") {
			continue
		}
		f := strings.Fields(blk)
		if len(f) >= 2 && f[0] == "goroutine" {
			if id, err := strconv.Atoi(f[1]); err == nil {
				out[id] = true
			}
		}
	}
	return out
}

// vWaitStarving waits (briefly) until the mutex is in starvation mode (state bit 4)
func vWaitStarving(m *sync.Mutex) bool {
	deadline := time.Now().Add(200 * time.Millisecond)
	for time.Now().Before(deadline) {
		if atomic.LoadInt32((*int32)(unsafe.Pointer(m)))&4 != 0 {
			return true
		}
		time.Sleep(20 * time.Microsecond)
	}
	return false
}

func vWaitWaiters(m *sync.Mutex, n int32) {
	deadline := time.Now().Add(200 * time.Millisecond)
	for vMutexWaiters(m) < n && time.Now().Before(deadline) {
		time.Sleep(20 * time.Microsecond)
	}
}

func vC13ErrClass(err error) string {
	if err == nil {
		return ""
	}
	st, ok := status.FromError(err)
	if !ok {
		return "other:" + err.Error()
	}
	switch st.Code() {
	case codes.FailedPrecondition:
		if st.Message() == "Consumer is not currently assigned this partition" {
			return "stale"
		}
		if st.Message() == "Server not partition leader" {
			return "notleader"
		}
		return "other:" + st.Message()
	case codes.InvalidArgument, codes.ResourceExhausted:
		return "invalid"
	}
	return "other:" + st.Code().String() + ":" + st.Message()
}

func (r *vC13Run) step(step map[string]interface{}) vC13Event {
	a := vStr(step, "a")
	args := map[string]interface{}{}
	obs := vC13Obs{A: a}
	func() {
		defer func() {
			if p := recover(); p != nil {
				obs.Err = fmt.Sprintf("panic:%v", p)
			}
		}()
		switch a {
		case "Subscribe":
			q := step["q"].(map[string]interface{})
			n, ris := vStr(q, "n"), vBool(q, "ris")
			g, c, e, bad, stop := vStr(q, "g"), vStr(q, "c"), vInt(q, "e"), vBool(q, "bad"), vStr(q, "stop")
			_ = ris
			via := vStrDef(q, "via", "int")
			args["q"] = map[string]interface{}{"n": n, "ris": ris, "g": g, "c": c, "e": e, "bad": bad, "stop": stop, "via": via}
			if via == "grpc" {
				r.subscribeGRPC(&obs, r.request(q, step), n, g, c, e)
				return
			}
			req := r.request(q, step)
			before := r.count(n)
			ctx, cancel := context.WithCancel(context.Background())
			sub, err := r.srv[n].api.SubscribeInternal(ctx, req)
			obs.Err = vC13ErrClass(err)
			if err != nil || sub == nil {
				cancel()
				return
			}
			id, isNew := r.adopt(sub, &vC13Sub{N: n, G: g, C: c, E: e, Loop: true, cancel: cancel})
			obs.ID = id
			if !isNew {
				// the call handed out a subscription that exists already: nothing new runs
				cancel()
				return
			}
			// the loop goroutine registers itself asynchronously
			r.waitCount(n, before+1, "loop start")
		case "Burst":
			// the consumers subscribe CONCURRENTLY (goroutines released together)
			g, e := vStr(step, "g"), vInt(step, "e")
			cs := []string{}
			for _, x := range step["cs"].([]interface{}) {
				cs = append(cs, x.(string))
			}
			args["g"], args["cs"], args["e"] = g, cs, e
			type res struct {
				sub    *subscription
				err    error
				cancel context.CancelFunc
			}
			out := make([]res, len(cs))
			start := make(chan struct{})
			var wg sync.WaitGroup
			ln := r.leaderNode()
			if ln == "?" {
				r.t.Fatalf("INCONCLUSIVE: behaviour %d: no agreed leader", r.id)
			}
			before := r.count(ln)
			for i := range cs {
				wg.Add(1)
				go func(i int) {
					defer wg.Done()
					req := &client.SubscribeRequest{
						Stream:        r.stream,
						Partition:     0,
						StartPosition: client.StartPosition_NEW_ONLY,
						Consumer:      &client.Consumer{GroupId: r.realGroup(g), GroupEpoch: uint64(e), ConsumerId: cs[i]},
					}
					ctx, cancel := context.WithCancel(context.Background())
					<-start
					sub, err := r.srv[ln].api.SubscribeInternal(ctx, req)
					out[i] = res{sub, err, cancel}
				}(i)
			}
			if vStrDef(step, "mode", "free") == "convoy" {
				// like Race: all subscribes park on consumersMu, then it is handed over in
				// FIFO order (a subscribe that lets go of the mutex in the middle and takes it
				// again queues behind the others)
				m := &r.cur(ln).consumersMu
				m.Lock()
				w0 := vMutexWaiters(m)
				close(start)
				vWaitWaiters(m, w0+int32(len(cs)))
				time.Sleep(1500 * time.Microsecond)
				m.Unlock()
				m.Lock()
				if vWaitStarving(m) {
					r.fifo++
				}
				m.Unlock()
			} else {
				close(start)
			}
			wg.Wait()
			accepted, classes := 0, map[string]bool{}
			for i, o := range out {
				classes[vC13ErrClass(o.err)] = true
				if o.err != nil || o.sub == nil {
					o.cancel()
					continue
				}
				if _, isNew := r.adopt(o.sub, &vC13Sub{N: ln, G: g, C: cs[i], E: e, Loop: true, cancel: o.cancel}); isNew {
					accepted++
				} else {
					classes["handed-out-twice"] = true
				}
			}
			switch {
			case len(classes) > 1:
				obs.Err = "mixed"
			case accepted == 0:
				obs.Err = vC13ErrClass(out[0].err)
			default:
				obs.ID = accepted
			}
			r.waitCount(ln, before+int64(accepted), "burst loops start")
		case "Cancel":
			s := int(vInt(step, "s"))
			args["s"] = s
			if s < 1 || s > len(r.subs) {
				obs.A, a = "Skip", "Skip"
				return
			}
			r.subs[s-1].sub.Close()
			obs.ID = s
		case "LoopExit":
			s := int(vInt(step, "s"))
			args["s"] = s
			if s < 1 || s > len(r.subs) || !r.subs[s-1].Loop {
				obs.A, a = "Skip", "Skip"
				return
			}
			r.exitLoop(r.subs[s-1])
			obs.ID = s
		case "Race":
			// The clean-up of the ending subscription s and the subscribe q contend for
			// consumersMu AT THE SAME TIME.  The driver holds the mutex, lets both park on
			// it (in the order `first` names), keeps them waiting beyond sync.Mutex's
			// starvation threshold and then hands the mutex over: it is now passed on in
			// strict FIFO order, so whenever one contender releases it and takes it again
			// (a critical section split in two), the other one runs in between.  Which
			// schedule results is exploration; the quiescent state afterwards is judged.
			s := int(vInt(step, "s"))
			args["s"] = s
			q, ok := step["q"].(map[string]interface{})
			if !ok {
				// the request is given by consumer and epoch: same server, same group as s
				q = map[string]interface{}{"n": "L", "ris": false, "g": "", "c": vStr(step, "c"), "e": step["e"],
					"bad": false, "stop": "none"}
				if s >= 1 && s <= len(r.subs) {
					q["n"], q["g"] = r.subs[s-1].N, r.subs[s-1].G
				}
			}
			n, g, c, e := vStr(q, "n"), vStr(q, "g"), vStr(q, "c"), vInt(q, "e")
			args["q"] = map[string]interface{}{"n": n, "ris": vBool(q, "ris"), "g": g, "c": c, "e": e,
				"bad": vBool(q, "bad"), "stop": vStr(q, "stop"), "via": "int"}
			if s < 1 || s > len(r.subs) || !r.subs[s-1].Loop || r.subs[s-1].N != n {
				obs.A, a = "Skip", "Skip"
				return
			}
			x := r.subs[s-1]
			p := r.cur(n)
			req := r.request(q, step)
			before := r.count(n)
			// the set of loop goroutines to compare with must hold no goroutine that is on
			// its way out (subscriberCount is decremented a moment before the goroutine is
			// gone): wait until every loop goroutine of the process is a counted one
			loopsBefore := vLoopGoroutines()
			for dl := time.Now().Add(vC13Deadline); int64(len(loopsBefore)) != r.count("L")+r.count("F"); loopsBefore = vLoopGoroutines() {
				if time.Now().After(dl) {
					r.t.Fatalf("INCONCLUSIVE: behaviour %d: %d loop goroutines, subscriberCount %d + %d", r.id,
						len(loopsBefore), r.count("L"), r.count("F"))
				}
				time.Sleep(50 * time.Microsecond)
			}
			exitFirst := vStrDef(step, "first", "exit") == "exit"
			var (
				sub    *subscription
				err    error
				done   = make(chan struct{})
				stop   = make(chan struct{})
				ctx, cancel = context.WithCancel(context.Background())
			)
			startExit := func() {
				x.cancel()
				go func() { // the API handler: takes the loop's final status
					for {
						select {
						case <-x.sub.Errors():
						case <-x.sub.Messages():
						case <-stop:
							return
						}
					}
				}()
			}
			startSub := func() {
				go func() {
					defer close(done)
					defer func() { // a panic of the real code is an observation
						if p := recover(); p != nil {
							sub, err = nil, fmt.Errorf("panic:%v", p)
						}
					}()
					sub, err = r.srv[n].api.SubscribeInternal(ctx, req)
				}()
			}
			p.consumersMu.Lock()
			w0 := vMutexWaiters(&p.consumersMu)
			if exitFirst {
				startExit()
				vWaitWaiters(&p.consumersMu, w0+1)
				startSub()
			} else {
				startSub()
				vWaitWaiters(&p.consumersMu, w0+1)
				startExit()
			}
			vWaitWaiters(&p.consumersMu, w0+2)
			time.Sleep(1500 * time.Microsecond) // beyond the starvation threshold (1 ms)
			p.consumersMu.Unlock()
			// barge in: the woken waiter finds the mutex taken, switches it to FIFO hand-over
			// (starvation mode) and parks again; then let go
			p.consumersMu.Lock()
			if vWaitStarving(&p.consumersMu) {
				r.fifo++
			}
			p.consumersMu.Unlock()
			select {
			case <-done:
			case <-time.After(vC13Deadline):
				close(stop)
				r.t.Fatalf("INCONCLUSIVE: behaviour %d: racing subscribe did not return", r.id)
			}
			accepted := int64(0)
			obs.Err = vC13ErrClass(err)
			if err != nil || sub == nil {
				cancel()
			} else {
				id, isNew := r.adopt(sub, &vC13Sub{N: n, G: g, C: c, E: e, Loop: true, cancel: cancel})
				obs.ID = id
				if isNew {
					accepted = 1
				} else {
					cancel()
				}
			}
			// quiescence: exactly one of the loops that ran before is gone, the new loop (if
			// any) runs, and subscriberCount has settled
			deadline := time.Now().Add(vC13Deadline)
			for {
				gone, fresh := 0, 0
				now := vLoopGoroutines()
				for id := range loopsBefore {
					if !now[id] {
						gone++
					}
				}
				for id := range now {
					if !loopsBefore[id] {
						fresh++
					}
				}
				if gone == 1 && int64(fresh) == accepted && r.count(n) == before-1+accepted {
					break
				}
				if time.Now().After(deadline) {
					close(stop)
					r.t.Fatalf("INCONCLUSIVE: behaviour %d: race did not settle (loops gone %d, new %d, accepted %d, subscriberCount %d, before %d)",
						r.id, gone, fresh, accepted, r.count(n), before)
				}
				time.Sleep(50 * time.Microsecond)
			}
			close(stop)
			x.Loop = false
			if x.h != nil {
				// the client's context ended: the handler returns (and closes the subscription)
				select {
				case <-x.h.done:
				case <-time.After(vC13Deadline):
					r.t.Fatalf("INCONCLUSIVE: behaviour %d: handler did not return after its context ended", r.id)
				}
			}
		case "Elect":
			r.elect(&obs)
		case "Resume":
			// a ResumeStream operation for the RUNNING partition goes through Raft again (the
			// duplicate of a request that was served already); returns when both servers
			// have applied it
			ms := r.metaLeader()
			for try := 1; ; try++ {
				ctx, cancel := context.WithTimeout(context.Background(), vC13Deadline)
				st := ms.metadata.ResumeStream(ctx, &proto.ResumeStreamOp{Stream: r.stream, Partitions: []int32{0}})
				timedOut := ctx.Err() != nil
				cancel()
				if st == nil {
					break
				}
				// Raft leadership lost on the way (loaded machine): the operation is idempotent, try
				// again with whoever leads the metadata now
				if timedOut || try >= 5 {
					r.t.Fatalf("INCONCLUSIVE: behaviour %d: resume refused %d times: %v", r.id, try, st.Message())
				}
				time.Sleep(200 * time.Millisecond)
				ms = r.metaLeader()
			}
			idx := ms.getRaft().AppliedIndex()
			deadline := time.Now().Add(vC13Deadline)
			for _, s := range r.all {
				for s.getRaft().AppliedIndex() < idx {
					if time.Now().After(deadline) {
						r.t.Fatalf("INCONCLUSIVE: behaviour %d: resume not applied on every server", r.id)
					}
					time.Sleep(50 * time.Microsecond)
				}
			}
		default:
			r.t.Fatalf("unknown action %q", a)
		}
	}()
	r.settleStreams()
	r.checkEnv("after " + a)
	return vC13Event{T: r.id, A: a, Args: args, St: r.state(), Obs: obs}
}

// elect: the controller elects the other in-sync replica, through the real
// metadataAPI.electNewPartitionLeader (Raft operation CHANGE_LEADER applied on both
// servers); returns when both servers run in their new roles.
func (r *vC13Run) metaLeader() *Server {
	deadline := time.Now().Add(3 * vC13Deadline)
	for {
		for _, s := range r.all {
			if s.IsLeader() {
				return s
			}
		}
		if time.Now().After(deadline) {
			r.t.Fatalf("INCONCLUSIVE: behaviour %d: no metadata leader", r.id)
		}
		time.Sleep(time.Millisecond)
	}
}

// subscribeGRPC: the subscribe goes through the real gRPC handler apiServer.Subscribe
// with the server side of a client stream; the handler call stays alive as long as
// it serves the stream.  (The stream's context ends only at a LoopExit step - gRPC
// itself would end it when the handler returns; the loop is then simply scheduled late.)
func (r *vC13Run) subscribeGRPC(obs *vC13Obs, req *client.SubscribeRequest, n, g, c string, e int64) {
	before := r.count(n)
	ctx, cancel := context.WithCancel(context.Background())
	h := &vC13Handler{done: make(chan struct{}), out: &vC13Stream{ctx: ctx, first: make(chan struct{})}}
	ready := make(chan struct{})
	go func() {
		defer close(h.done)
		defer func() { // a panic of the real code is an observation
			if p := recover(); p != nil {
				h.err = fmt.Errorf("panic:%v", p)
			}
		}()
		h.gid = vGoroutineID()
		close(ready)
		h.err = r.srv[n].api.Subscribe(req, h.out)
	}()
	<-ready
	select {
	case <-h.out.first:
	case <-h.done:
		cancel()
		obs.Err = vC13ErrClass(h.err)
		if h.err == nil {
			obs.Err = "other:handler returned without serving"
		}
		return
	case <-time.After(vC13Deadline):
		cancel()
		r.t.Fatalf("INCONCLUSIVE: behaviour %d: gRPC subscribe neither served nor refused", r.id)
	}
	// the subscription object behind the handler: the member the partition registered
	m := r.cur(n).GetGroupConsumer(r.realGroup(g))
	if m == nil || m.sub == nil {
		cancel()
		obs.Err = "other:served but no member registered"
		return
	}
	id, isNew := r.adopt(m.sub, &vC13Sub{N: n, G: g, C: c, E: e, Loop: true, cancel: cancel, h: h})
	obs.ID = id
	if !isNew {
		// the handler serves a subscription that existed already: a second client stream on
		// it; end this one (its deferred Close is the real code's doing and is recorded)
		cancel()
		<-h.done
		return
	}
	r.waitCount(n, before+1, "loop start")
}

func (r *vC13Run) elect(obs *vC13Obs) {
	cur := r.leaderNode()
	ms := r.metaLeader()
	deadline := time.Now().Add(vC13Deadline)
	mp := ms.metadata.GetPartition(r.stream, 0)
	for mp == nil || len(mp.GetISR()) < 2 || cur == "?" {
		if time.Now().After(deadline) {
			r.t.Fatalf("INCONCLUSIVE: behaviour %d: the follower is not in the ISR (or no agreed leader)", r.id)
		}
		time.Sleep(time.Millisecond)
		mp = ms.metadata.GetPartition(r.stream, 0)
		cur = r.leaderNode()
	}
	next := "L"
	if cur == "L" {
		next = "F"
	}
	want := r.srv[next].config.Clustering.ServerID
	for try := 1; ; try++ {
		leader, epoch := mp.GetLeader()
		if leader == want {
			break // an earlier try went through although it reported a failure
		}
		ctx, cancel := context.WithTimeout(context.Background(), vC13Deadline)
		st := ms.metadata.electNewPartitionLeader(ctx, mp, leader, epoch)
		timedOut := ctx.Err() != nil
		cancel()
		if st == nil {
			break
		}
		// a healthy cluster with both replicas in the ISR does not refuse: the Raft leadership
		// was lost on the way (loaded machine) - not an observation about group subscriptions.
		// Try again with whoever is the metadata leader now.
		if timedOut || try >= 5 {
			r.t.Fatalf("INCONCLUSIVE: behaviour %d: election refused %d times: %v", r.id, try, st.Message())
		}
		time.Sleep(200 * time.Millisecond)
		ms = r.metaLeader()
		mp = ms.metadata.GetPartition(r.stream, 0)
	}
	for {
		la, ea := r.cur("L").GetLeader()
		lb, eb := r.cur("F").GetLeader()
		if la == want && lb == want && ea == eb && r.cur(next).IsLeader() && r.cur(cur).isFollowingNow() {
			r.expLeader, r.expEpoch = want, ea
			return
		}
		if time.Now().After(deadline) {
			r.t.Fatalf("INCONCLUSIVE: behaviour %d: the servers did not take their new roles", r.id)
		}
		time.Sleep(50 * time.Microsecond)
	}
}

// exitLoop makes the subscribe loop of x return and waits for its deferred
// clean-up.  The loop leaves ReadMessage when its context ends and then either
// sees the closed subscription or hands its final status to whoever reads the
// error channel (the API handler) - the harness plays that reader.
func (r *vC13Run) exitLoop(x *vC13Sub) {
	before := r.count(x.N)
	x.cancel()
	deadline := time.After(vC13Deadline)
	for r.count(x.N) != before-1 {
		select {
		case <-x.sub.Errors():
		case <-x.sub.Messages():
		case <-deadline:
			r.t.Fatalf("INCONCLUSIVE: behaviour %d: loop did not exit", r.id)
		case <-time.After(20 * time.Microsecond):
		}
	}
	x.Loop = false
	if x.h != nil {
		// the client's context ended: the handler returns (and closes the subscription)
		select {
		case <-x.h.done:
		case <-time.After(vC13Deadline):
			r.t.Fatalf("INCONCLUSIVE: behaviour %d: handler did not return after its context ended", r.id)
		}
	}
}

func (r *vC13Run) finish() {
	for _, x := range r.subs {
		x.sub.Close()
		if x.Loop {
			r.exitLoop(x)
		} else {
			x.cancel()
		}
	}
	for _, n := range vC13Nodes {
		r.waitCount(n, r.base[n], "end of behaviour")
		// objects that were replaced under running subscriptions are orphans whose loops
		// would keep the server from stopping (hygiene, after the record)
		now := r.cur(n)
		for _, o := range append([]*partition{r.p[n]}, r.later[n]...) {
			if o != now {
				o.Close()
			}
		}
	}
}

func TestVerifGroupSub(t *testing.T) {
	sf := vLoadStimuli(t)
	tw := vOpenTrace(t)
	defer tw.Close()

	defer os.RemoveAll(storagePath)
	// two servers: the stream is replicated on both, one leads the partition, the
	// other follows it (and has its own partition object and group table)
	cfgA := vOneNodeConfig(t, "a")
	srvA := vOneNodeServer(t, cfgA)
	var srvB *Server
	// Server.Stop waits for ever when subscriptions were left open (a run that ended
	// with INCONCLUSIVE in the middle of a behaviour): give up after a while instead of
	// sitting there until the test timeout
	defer func() {
		done := make(chan struct{})
		go func() {
			if srvB != nil {
				srvB.Stop()
			}
			srvA.Stop()
			close(done)
		}()
		select {
		case <-done:
		case <-time.After(15 * time.Second):
			fmt.Fprintln(os.Stderr, "c13: the servers do not stop (subscriptions left open); giving up")
		}
	}()
	var err error
	srvB, err = RunServerWithConfig(vJoinConfig(t, "b", cfgA))
	if err != nil {
		srvB = nil
		t.Fatalf("INCONCLUSIVE: second server did not start: %v", err)
	}

	stream := "c13"
	deadline := time.Now().Add(3 * vC13Deadline)
	for {
		_, err := srvA.api.CreateStream(context.Background(),
			&client.CreateStreamRequest{Name: stream, Subject: "c13", ReplicationFactor: 2})
		if err == nil {
			break
		}
		// the second server may not have joined the cluster yet
		if time.Now().After(deadline) {
			t.Fatalf("INCONCLUSIVE: create stream: %v", err)
		}
		time.Sleep(50 * time.Millisecond)
	}
	// "L" = the server that leads the partition when a behaviour starts, "F" the other
	// (identities for the whole behaviour, whatever the Elect steps do)
	roles := func() (map[string]*Server, map[string]*partition, string, uint64) {
		deadline := time.Now().Add(3 * vC13Deadline)
		for {
			pa, pb := srvA.metadata.GetPartition(stream, 0), srvB.metadata.GetPartition(stream, 0)
			if pa != nil && pb != nil {
				la, ea := pa.GetLeader()
				lb, eb := pb.GetLeader()
				if la == lb && ea == eb && la == "a" && pa.IsLeader() && pb.isFollowingNow() {
					return map[string]*Server{"L": srvA, "F": srvB}, map[string]*partition{"L": pa, "F": pb}, la, ea
				}
				if la == lb && ea == eb && la == "b" && pb.IsLeader() && pa.isFollowingNow() {
					return map[string]*Server{"L": srvB, "F": srvA}, map[string]*partition{"L": pb, "F": pa}, la, ea
				}
			}
			if time.Now().After(deadline) {
				t.Fatalf("INCONCLUSIVE: partition did not start on both servers")
			}
			time.Sleep(time.Millisecond)
		}
	}

	races, elects, fifo := 0, 0, 0
	for _, b := range sf.Behaviours {
		srv, p, leader, epoch := roles()
		run := &vC13Run{t: t, srv: srv, p: p, stream: stream, id: b.ID, all: []*Server{srvA, srvB},
			expLeader: leader, expEpoch: epoch,
			base: map[string]int64{"L": vC13Count(p["L"]), "F": vC13Count(p["F"])}}
		for _, g := range b.Cfg["groups"].([]interface{}) {
			run.groups = append(run.groups, g.(string))
		}
		tw.Emit(vC13Event{T: b.ID, A: "Open", Args: map[string]interface{}{}, St: run.state(),
			Obs: vC13Obs{A: "Open"}})
		for _, step := range b.Steps {
			ev := run.step(step)
			switch ev.A {
			case "Race":
				races++
			case "Elect":
				elects++
			}
			tw.Emit(ev)
		}
		run.finish()
		fifo += run.fifo
	}
	fmt.Fprintf(os.Stderr, "c13: %d behaviours, %d Race steps (%d with FIFO hand-over of consumersMu), %d Elect steps executed\n",
		len(sf.Behaviours), races, fifo, elects)
}

// isFollowingNow: the partition object runs its follower loop
func (p *partition) isFollowingNow() bool {
	p.mu.RLock()
	defer p.mu.RUnlock()
	return p.isFollowing
}
