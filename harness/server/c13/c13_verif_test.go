//go:build verif

package server

// Lock-step replay of GroupSub.tla behaviours on the real partition.Subscribe
// (property C13: at most one active subscription per consumer group and
// partition).
//
// One one-node server (embedded NATS, single-node Raft) and one stream with
// one partition serve every behaviour; each behaviour uses its own group ids
// ("b<id>-<group>") so that behaviours do not see each other.
//
// Steps are intents:
//   Subscribe(g, c, e, bad)  apiServer.SubscribeInternal -> partition.Subscribe with a
//                            fresh cancellable context (bad = invalid positions)
//   Cancel(s)                subscription.Close() of the s-th subscription handed out
//   LoopExit(s)              make the subscribe loop of subscription s return: cancel
//                            its context, take the loop's final status if the
//                            subscription is still open (as the API handler would),
//                            wait until subscriberCount dropped (the deferred
//                            removeGroupSubscriber has run by then)
// After every step the abstract state is projected from the real objects:
// Closed() of every subscription, partition.consumers (identity of the registered
// subscription, consumer id, epoch), subscriberCount.  The verdict is TLC's
// (Trace_GroupSub.tla); this file never decides pass/fail.

import (
	"context"
	"fmt"
	"os"
	"sync"
	"testing"
	"time"

	client "github.com/liftbridge-io/liftbridge-api/v2/go"
	"google.golang.org/grpc/codes"
	"google.golang.org/grpc/status"
)

const vC13Deadline = 20 * time.Second

type vC13Sub struct {
	N      string `json:"n"` // serving node: L (partition leader) | F (in-sync follower)
	G      string `json:"g"`
	C      string `json:"c"`
	E      int64  `json:"e"`
	Open   bool   `json:"open"`
	Loop   bool   `json:"loop"`
	sub    *subscription
	cancel context.CancelFunc
}

type vC13Reg struct {
	S int    `json:"s"` // index (1-based) of the registered subscription, 0 none, -1 unknown object
	C string `json:"c"`
	E int64  `json:"e"`
}

type vC13State struct {
	Subs   []vC13Sub                     `json:"subs"`
	Reg    map[string]map[string]int     `json:"reg"`    // node -> group -> index
	RegCE  map[string]map[string]vC13Reg `json:"regce"`  // node -> group -> entry
	NLoops map[string]int64              `json:"nloops"` // node -> running loops
}

type vC13Obs struct {
	A   string `json:"a"`
	Err string `json:"err"`
	ID  int    `json:"id"`
}

type vC13Event struct {
	T    int                    `json:"t"`
	A    string                 `json:"a"`
	Args map[string]interface{} `json:"args"`
	St   vC13State              `json:"st"`
	Obs  vC13Obs                `json:"obs"`
}

type vC13Run struct {
	t      *testing.T
	srv    map[string]*Server    // L, F
	p      map[string]*partition // each server's own partition object
	stream string
	id     int
	groups []string
	subs   []*vC13Sub
	base   map[string]int64 // subscriberCount of each partition object before the behaviour
}

var vC13Nodes = []string{"L", "F"}

func vC13Count(p *partition) int64 {
	p.mu.RLock()
	defer p.mu.RUnlock()
	return p.subscriberCount
}

func (r *vC13Run) waitCount(n string, want int64, what string) {
	deadline := time.Now().Add(vC13Deadline)
	for {
		if vC13Count(r.p[n]) == want {
			return
		}
		if time.Now().After(deadline) {
			r.t.Fatalf("INCONCLUSIVE: behaviour %d: %s: subscriberCount[%s]=%d, waited for %d",
				r.id, what, n, vC13Count(r.p[n]), want)
		}
		time.Sleep(20 * time.Microsecond)
	}
}

func (r *vC13Run) realGroup(g string) string {
	if g == "" {
		return ""
	}
	return fmt.Sprintf("b%d-%s", r.id, g)
}

func vIsClosed(s *subscription) bool {
	select {
	case <-s.Closed():
		return true
	default:
		return false
	}
}

func (r *vC13Run) state() vC13State {
	st := vC13State{Subs: []vC13Sub{}, Reg: map[string]map[string]int{},
		RegCE: map[string]map[string]vC13Reg{}, NLoops: map[string]int64{}}
	for _, s := range r.subs {
		c := *s
		c.Open = !vIsClosed(s.sub)
		st.Subs = append(st.Subs, c)
	}
	for _, n := range vC13Nodes {
		st.Reg[n], st.RegCE[n] = map[string]int{}, map[string]vC13Reg{}
		for _, g := range r.groups {
			m := r.p[n].GetGroupConsumer(r.realGroup(g))
			if m == nil {
				st.Reg[n][g] = 0
				st.RegCE[n][g] = vC13Reg{}
				continue
			}
			idx := -1
			for i, s := range r.subs {
				if s.sub == m.sub {
					idx = i + 1
				}
			}
			st.Reg[n][g] = idx
			st.RegCE[n][g] = vC13Reg{S: idx, C: m.consumerID, E: int64(m.groupEpoch)}
		}
		st.NLoops[n] = vC13Count(r.p[n]) - r.base[n]
	}
	return st
}

func vC13ErrClass(err error) string {
	if err == nil {
		return ""
	}
	st, ok := status.FromError(err)
	if !ok {
		return "other:" + err.Error()
	}
	switch st.Code() {
	case codes.FailedPrecondition:
		if st.Message() == "Consumer is not currently assigned this partition" {
			return "stale"
		}
		if st.Message() == "Server not partition leader" {
			return "notleader"
		}
		return "other:" + st.Message()
	case codes.InvalidArgument, codes.ResourceExhausted:
		return "invalid"
	}
	return "other:" + st.Code().String() + ":" + st.Message()
}

func (r *vC13Run) step(step map[string]interface{}) vC13Event {
	a := vStr(step, "a")
	args := map[string]interface{}{}
	obs := vC13Obs{A: a}
	func() {
		defer func() {
			if p := recover(); p != nil {
				obs.Err = fmt.Sprintf("panic:%v", p)
			}
		}()
		switch a {
		case "Subscribe":
			q := step["q"].(map[string]interface{})
			n, ris := vStr(q, "n"), vBool(q, "ris")
			g, c, e, bad, stop := vStr(q, "g"), vStr(q, "c"), vInt(q, "e"), vBool(q, "bad"), vStr(q, "stop")
			args["q"] = map[string]interface{}{"n": n, "ris": ris, "g": g, "c": c, "e": e, "bad": bad, "stop": stop}
			req := &client.SubscribeRequest{
				Stream:         r.stream,
				Partition:      0,
				StartPosition:  client.StartPosition_NEW_ONLY,
				ReadISRReplica: ris,
			}
			if g != "" {
				req.Consumer = &client.Consumer{GroupId: r.realGroup(g), GroupEpoch: uint64(e), ConsumerId: c}
			}
			if stop != "none" {
				// a stop position that is not reached (the log is empty): the
				// subscription keeps running like an open-ended one
				req.StopPosition = client.StopPosition_STOP_OFFSET
				req.StopOffset = vIntDef(step, "stopoff", 1000)
			}
			if bad {
				switch vStrDef(step, "badkind", "start") {
				case "start":
					req.StartPosition = client.StartPosition(99)
				case "stoplatest": // the stream is empty
					req.StopPosition = client.StopPosition_STOP_LATEST
				default: // stop offset before the start offset
					req.StartPosition = client.StartPosition_OFFSET
					req.StartOffset = 5
					req.StopPosition = client.StopPosition_STOP_OFFSET
					req.StopOffset = 2
				}
			}
			before := vC13Count(r.p[n])
			ctx, cancel := context.WithCancel(context.Background())
			sub, err := r.srv[n].api.SubscribeInternal(ctx, req)
			obs.Err = vC13ErrClass(err)
			if err != nil || sub == nil {
				cancel()
				return
			}
			r.subs = append(r.subs, &vC13Sub{N: n, G: g, C: c, E: e, Loop: true, sub: sub, cancel: cancel})
			obs.ID = len(r.subs)
			// the loop goroutine registers itself asynchronously
			r.waitCount(n, before+1, "loop start")
		case "Burst":
			// the consumers subscribe CONCURRENTLY (goroutines released together)
			g, e := vStr(step, "g"), vInt(step, "e")
			cs := []string{}
			for _, x := range step["cs"].([]interface{}) {
				cs = append(cs, x.(string))
			}
			args["g"], args["cs"], args["e"] = g, cs, e
			type res struct {
				sub    *subscription
				err    error
				cancel context.CancelFunc
			}
			out := make([]res, len(cs))
			start := make(chan struct{})
			var wg sync.WaitGroup
			before := vC13Count(r.p["L"])
			for i := range cs {
				wg.Add(1)
				go func(i int) {
					defer wg.Done()
					req := &client.SubscribeRequest{
						Stream:        r.stream,
						Partition:     0,
						StartPosition: client.StartPosition_NEW_ONLY,
						Consumer:      &client.Consumer{GroupId: r.realGroup(g), GroupEpoch: uint64(e), ConsumerId: cs[i]},
					}
					ctx, cancel := context.WithCancel(context.Background())
					<-start
					sub, err := r.srv["L"].api.SubscribeInternal(ctx, req)
					out[i] = res{sub, err, cancel}
				}(i)
			}
			close(start)
			wg.Wait()
			accepted, classes := 0, map[string]bool{}
			for i, o := range out {
				classes[vC13ErrClass(o.err)] = true
				if o.err != nil || o.sub == nil {
					o.cancel()
					continue
				}
				accepted++
				r.subs = append(r.subs, &vC13Sub{N: "L", G: g, C: cs[i], E: e, Loop: true, sub: o.sub, cancel: o.cancel})
			}
			switch {
			case len(classes) > 1:
				obs.Err = "mixed"
			case accepted == 0:
				obs.Err = vC13ErrClass(out[0].err)
			default:
				obs.ID = accepted
			}
			r.waitCount("L", before+int64(accepted), "burst loops start")
		case "Cancel":
			s := int(vInt(step, "s"))
			args["s"] = s
			if s < 1 || s > len(r.subs) {
				obs.A, a = "Skip", "Skip"
				return
			}
			r.subs[s-1].sub.Close()
			obs.ID = s
		case "LoopExit":
			s := int(vInt(step, "s"))
			args["s"] = s
			if s < 1 || s > len(r.subs) || !r.subs[s-1].Loop {
				obs.A, a = "Skip", "Skip"
				return
			}
			r.exitLoop(r.subs[s-1])
			obs.ID = s
		default:
			r.t.Fatalf("unknown action %q", a)
		}
	}()
	return vC13Event{T: r.id, A: a, Args: args, St: r.state(), Obs: obs}
}

// exitLoop makes the subscribe loop of x return and waits for its deferred
// clean-up.  The loop leaves ReadMessage when its context ends and then either
// sees the closed subscription or hands its final status to whoever reads the
// error channel (the API handler) - the harness plays that reader.
func (r *vC13Run) exitLoop(x *vC13Sub) {
	before := vC13Count(r.p[x.N])
	x.cancel()
	deadline := time.After(vC13Deadline)
	for vC13Count(r.p[x.N]) != before-1 {
		select {
		case <-x.sub.Errors():
		case <-x.sub.Messages():
		case <-deadline:
			r.t.Fatalf("INCONCLUSIVE: behaviour %d: loop did not exit", r.id)
		case <-time.After(20 * time.Microsecond):
		}
	}
	x.Loop = false
}

func (r *vC13Run) finish() {
	for _, x := range r.subs {
		x.sub.Close()
		if x.Loop {
			r.exitLoop(x)
		} else {
			x.cancel()
		}
	}
	for _, n := range vC13Nodes {
		r.waitCount(n, r.base[n], "end of behaviour")
	}
}

func TestVerifGroupSub(t *testing.T) {
	sf := vLoadStimuli(t)
	tw := vOpenTrace(t)
	defer tw.Close()

	defer os.RemoveAll(storagePath)
	// two servers: the stream is replicated on both, one leads the partition, the
	// other follows it (and has its own partition object and group table)
	cfgA := vOneNodeConfig(t, "a")
	srvA := vOneNodeServer(t, cfgA)
	defer srvA.Stop()
	srvB, err := RunServerWithConfig(vJoinConfig(t, "b", cfgA))
	if err != nil {
		t.Fatalf("INCONCLUSIVE: second server did not start: %v", err)
	}
	defer srvB.Stop()

	stream := "c13"
	deadline := time.Now().Add(3 * vC13Deadline)
	for {
		_, err := srvA.api.CreateStream(context.Background(),
			&client.CreateStreamRequest{Name: stream, Subject: "c13", ReplicationFactor: 2})
		if err == nil {
			break
		}
		// the second server may not have joined the cluster yet
		if time.Now().After(deadline) {
			t.Fatalf("INCONCLUSIVE: create stream: %v", err)
		}
		time.Sleep(50 * time.Millisecond)
	}
	srv := map[string]*Server{}
	p := map[string]*partition{}
	for {
		pa, pb := srvA.metadata.GetPartition(stream, 0), srvB.metadata.GetPartition(stream, 0)
		if pa != nil && pb != nil {
			la, _ := pa.GetLeader()
			lb, _ := pb.GetLeader()
			if la == lb && la == "a" && pa.IsLeader() && pb.isFollowingNow() {
				srv["L"], srv["F"], p["L"], p["F"] = srvA, srvB, pa, pb
				break
			}
			if la == lb && la == "b" && pb.IsLeader() && pa.isFollowingNow() {
				srv["L"], srv["F"], p["L"], p["F"] = srvB, srvA, pb, pa
				break
			}
		}
		if time.Now().After(deadline) {
			t.Fatalf("INCONCLUSIVE: partition did not start on both servers")
		}
		time.Sleep(time.Millisecond)
	}

	for _, b := range sf.Behaviours {
		run := &vC13Run{t: t, srv: srv, p: p, stream: stream, id: b.ID,
			base: map[string]int64{"L": vC13Count(p["L"]), "F": vC13Count(p["F"])}}
		for _, g := range b.Cfg["groups"].([]interface{}) {
			run.groups = append(run.groups, g.(string))
		}
		tw.Emit(vC13Event{T: b.ID, A: "Open", Args: map[string]interface{}{}, St: run.state(),
			Obs: vC13Obs{A: "Open"}})
		for _, step := range b.Steps {
			tw.Emit(run.step(step))
		}
		run.finish()
	}
}

// isFollowingNow: the partition object runs its follower loop
func (p *partition) isFollowingNow() bool {
	p.mu.RLock()
	defer p.mu.RUnlock()
	return p.isFollowing
}
