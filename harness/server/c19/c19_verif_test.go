//go:build verif

package server

// C19 harness, package server: every route by which telemetry is configured
// (YAML file x environment variable x programmatic assignment x with/without a
// configuration file) goes through the real NewConfig and a real one-node
// server (New + Start + Stop); http.DefaultTransport - which the collector's
// http.Client uses - is replaced by a recorder.  The harness records the
// configured value, the number of requests, the key paths and header names of
// the last request and which classes of server strings occur in any request;
// TLC judges (Trace_Telemetry.tla).

import (
	"bytes"
	"context"
	"encoding/json"
	"fmt"
	"io"
	"net/http"
	"os"
	"path/filepath"
	"regexp"
	"runtime"
	"sort"
	"strings"
	"sync"
	"testing"
	"time"

	client "github.com/liftbridge-io/liftbridge-api/v2/go"
)

type vC19Req struct {
	url    string
	body   []byte
	header http.Header
	id     string // instance_id of the body
}

type vC19Recorder struct {
	mu   sync.Mutex
	reqs []vC19Req
}

func (r *vC19Recorder) RoundTrip(req *http.Request) (*http.Response, error) {
	var body []byte
	if req.Body != nil {
		body, _ = io.ReadAll(req.Body)
		req.Body.Close()
	}
	var p map[string]interface{}
	id := ""
	if json.Unmarshal(body, &p) == nil {
		if s, ok := p["instance_id"].(string); ok {
			id = s
		}
	}
	r.mu.Lock()
	r.reqs = append(r.reqs, vC19Req{url: req.URL.String(), body: body, header: req.Header.Clone(), id: id})
	r.mu.Unlock()
	return &http.Response{StatusCode: 200, Status: "200 OK", Body: io.NopCloser(bytes.NewReader(nil)),
		Header: http.Header{}, Request: req, Proto: "HTTP/1.1", ProtoMajor: 1, ProtoMinor: 1}, nil
}

func (r *vC19Recorder) count() int {
	r.mu.Lock()
	defer r.mu.Unlock()
	return len(r.reqs)
}

// from returns every request recorded at or after index k (used when a single server runs alone).
func (r *vC19Recorder) from(k int) []vC19Req {
	r.mu.Lock()
	defer r.mu.Unlock()
	if k > len(r.reqs) {
		k = len(r.reqs)
	}
	return append([]vC19Req{}, r.reqs[k:]...)
}

var vC19UUID4 = regexp.MustCompile(`^[0-9a-f]{8}-[0-9a-f]{4}-4[0-9a-f]{3}-[89ab][0-9a-f]{3}-[0-9a-f]{12}$`)

func (r *vC19Recorder) forID(id string) []vC19Req {
	r.mu.Lock()
	defer r.mu.Unlock()
	out := []vC19Req{}
	for _, q := range r.reqs {
		if id != "" && q.id == id {
			out = append(out, q)
		}
	}
	return out
}

func vC19KeyPaths(prefix string, v interface{}, out map[string]bool) {
	if m, ok := v.(map[string]interface{}); ok {
		for k, x := range m {
			p := k
			if prefix != "" {
				p = prefix + "." + k
			}
			out[p] = true
			vC19KeyPaths(p, x, out)
		}
	}
	if l, ok := v.([]interface{}); ok {
		for _, x := range l {
			vC19KeyPaths(prefix+"[]", x, out)
		}
	}
}

func vC19Sorted(m map[string]bool) []string {
	out := []string{}
	for k := range m {
		out = append(out, k)
	}
	sort.Strings(out)
	return out
}

var vC19EnvMu sync.Mutex

const (
	vC19EnvVar = "LIFTBRIDGE_TELEMETRY_ENABLED"
	vC19Window = 1700 * time.Millisecond // longer than the 1 s reporting interval
)

type vC19Run struct {
	t        *testing.T
	id       int
	name     string
	route    map[string]interface{}
	rec      *vC19Recorder
	cfg      *Config
	srv      *Server
	userData bool
	secrets  map[string][]string // class -> strings that must never appear in a request
	lastSeen int
	started  bool
	stopped  bool
	// exclusive: the server runs while no other server of the test does, every request recorded from
	// startIdx on is its own (needed when no instance-id file exists to attribute requests by)
	exclusive bool
	startIdx  int
}

func (r *vC19Run) requests() []vC19Req {
	if r.exclusive {
		return r.rec.from(r.startIdx)
	}
	return r.rec.forID(r.instanceID())
}

func (r *vC19Run) instanceID() string {
	if r.cfg == nil {
		return ""
	}
	b, err := os.ReadFile(filepath.Join(r.cfg.DataDir, ".instance_id"))
	if err != nil {
		return ""
	}
	return strings.TrimSpace(string(b))
}

// state projects what the recorder saw for this server.
func (r *vC19Run) state() map[string]interface{} {
	reqs := r.requests()
	keys, hdrs, leaks := map[string]bool{}, map[string]bool{}, map[string]bool{}
	urlOK, idsOK := true, true
	// key paths and header names of EVERY request (a field that is only sometimes present must show)
	for _, q := range reqs {
		var p interface{}
		if json.Unmarshal(q.body, &p) == nil {
			vC19KeyPaths("", p, keys)
		} else {
			keys["<not json>"] = true
		}
		for h := range q.header {
			hdrs[h] = true
		}
	}
	for _, q := range reqs {
		// the instance id must have the shape of a random (version 4) UUID and be no string of the server
		if !vC19UUID4.MatchString(q.id) {
			idsOK = false
		}
		for _, ss := range r.secrets {
			for _, s := range ss {
				if s != "" && q.id == s {
					idsOK = false
				}
			}
		}
		if h, err := os.Hostname(); err == nil && q.id == h {
			idsOK = false
		}
		hay := q.url + "\n" + string(q.body)
		for h, vs := range q.header {
			hay += "\n" + h + ": " + strings.Join(vs, ",")
		}
		for class, ss := range r.secrets {
			for _, s := range ss {
				if s != "" && strings.Contains(hay, s) {
					leaks[class] = true
				}
			}
		}
		if !strings.HasPrefix(q.url, "https://telemetry.basekick.net/") || strings.Contains(q.url, "?") {
			urlOK = false
		}
	}
	r.lastSeen = len(reqs)
	return map[string]interface{}{
		"enabled":   r.cfg != nil && r.cfg.Telemetry.Enabled,
		"collector": r.srv != nil && r.srv.telemetry != nil,
		"userData":  r.userData,
		"sent":      len(reqs),
		"keys":      vC19Sorted(keys),
		"hdrs":      vC19Sorted(hdrs),
		"leaks":     vC19Sorted(leaks),
		"urlOK":     urlOK,
		"idsOK":     idsOK,
		"aged":      false, // the collector's clock is not reachable from package server
	}
}

// waitMore waits until this server made more requests than at the last
// observation, or the window elapses.
func (r *vC19Run) waitMore(window time.Duration) {
	deadline := time.Now().Add(window)
	for time.Now().Before(deadline) {
		if len(r.requests()) > r.lastSeen {
			return
		}
		time.Sleep(5 * time.Millisecond)
	}
}

// vC19Companions: other settings that stand in the same configuration file next to telemetry.*
func vC19Companions(other string) string {
	switch other {
	case "activityOn":
		return "activity.stream:\n  enabled: true\n"
	case "activityOff":
		return "activity.stream:\n  enabled: false\n"
	case "full":
		return "activity.stream:\n  enabled: true\n  publish.timeout: 1m\nstreams:\n  compact.enabled: true\n  concurrency.control: true\nbatch.max:\n  messages: 10\nmetadata.cache.max.age: 1m\n"
	}
	return ""
}

func (r *vC19Run) loadConfig() error {
	file, env, prog := vStr(r.route, "file"), vStr(r.route, "env"), vStr(r.route, "prog")
	hasFile := vBool(r.route, "hasFile")
	base := vOneNodeConfig(r.t, r.name)
	path := ""
	ival, ivalBy := vStr(r.route, "ival"), vStr(r.route, "ivalBy")
	seconds := map[string]int{"custom": 1, "zero": 0, "negative": -5}
	if hasFile {
		y := "logging:\n  level: error\n"
		tel := ""
		if ival != "default" && ivalBy == "file" {
			tel += fmt.Sprintf("  interval:\n    seconds: %d\n", seconds[ival])
		}
		if file != "unset" {
			tel += "  enabled: " + file + "\n"
		}
		if tel != "" {
			y += "telemetry:\n" + tel
		}
		y += vC19Companions(vStrDef(r.route, "other", "none"))
		path = filepath.Join(storagePath, r.name+".yaml")
		if err := os.WriteFile(path, []byte(y), 0o644); err != nil {
			return err
		}
	}
	vC19EnvMu.Lock()
	if env != "unset" {
		os.Setenv(vC19EnvVar, env)
	} else {
		os.Unsetenv(vC19EnvVar)
	}
	cfg, err := NewConfig(path)
	os.Unsetenv(vC19EnvVar)
	vC19EnvMu.Unlock()
	if err != nil {
		return err
	}
	// the embedding program: operational settings of the test server ...
	cfg.DataDir = base.DataDir
	cfg.Clustering.ServerID = base.Clustering.ServerID
	cfg.Clustering.RaftBootstrapSeed = true
	cfg.Clustering.RaftSnapshots = 1
	cfg.EmbeddedNATS = true
	cfg.EmbeddedNATSConfig = base.EmbeddedNATSConfig
	cfg.NATS.Servers = base.NATS.Servers
	cfg.NATS.User = "natsuser-" + r.name
	cfg.NATS.Password = "natspass-" + r.name
	cfg.LogSilent = true
	cfg.Port = 0
	// ... and, on the programmatic routes, the telemetry settings - assigned before server.New(cfg) or
	// between server.New(cfg) and Start() (the Config is shared by pointer: both are "programmatic config")
	applyProg := func() {
		switch {
		case prog != "unset" && ivalBy == "prog" && ival == "zero":
			// a hand-built telemetry section: only the switch is given
			cfg.Telemetry = TelemetryConfig{Enabled: prog == "true"}
		default:
			if ival != "default" && ivalBy == "prog" {
				cfg.Telemetry.IntervalSeconds = seconds[ival]
			}
			if prog != "unset" {
				cfg.Telemetry.Enabled = prog == "true"
			}
		}
	}
	progAt := vStrDef(r.route, "progAt", "before")
	if progAt == "before" {
		applyProg()
	}
	if vStr(r.route, "idfile") == "unusable" {
		// <data dir>/.instance_id can be neither read nor written: it is a directory
		if err := os.MkdirAll(filepath.Join(cfg.DataDir, ".instance_id"), 0o755); err != nil {
			return err
		}
	}
	cfg.Clustering.ServerID = "srvid-" + r.name
	r.srv = New(cfg)
	if progAt == "between" {
		applyProg()
	}
	r.cfg = cfg
	r.secrets["creds"] = []string{cfg.NATS.User, cfg.NATS.Password}
	r.secrets["addr"] = append([]string{"127.0.0.1", "localhost"}, cfg.NATS.Servers...)
	r.secrets["datadir"] = []string{cfg.DataDir}
	r.secrets["serverid"] = []string{"srvid-" + r.name}
	if h, err := os.Hostname(); err == nil && len(h) >= 6 &&
		!strings.Contains(fmt.Sprintf("%s-%s-%s", runtime.GOOS, runtime.Version(), runtime.GOARCH), h) {
		r.secrets["hostname"] = []string{h}
	}
	return nil
}

func (r *vC19Run) step(a string) map[string]interface{} {
	obs := map[string]interface{}{"a": a, "err": ""}
	switch a {
	case "LoadConfig":
		if err := r.loadConfig(); err != nil {
			obs["err"] = err.Error()
		}
	case "Start":
		if r.cfg == nil {
			obs["err"] = "no config"
			break
		}
		if err := r.srv.Start(); err != nil {
			r.t.Fatalf("INCONCLUSIVE: server did not start: %v", err)
		}
		r.started = true
		for deadline := time.Now().Add(30 * time.Second); !(r.srv.IsRunning() && r.srv.getRaft() != nil && r.srv.IsLeader()); {
			if time.Now().After(deadline) {
				r.t.Fatalf("INCONCLUSIVE: server did not become metadata leader")
			}
			time.Sleep(2 * time.Millisecond)
		}
		r.secrets["addr"] = append(r.secrets["addr"], fmt.Sprintf(":%d", r.srv.GetListenPort()))
		r.waitMore(vC19Window)
	case "UserData":
		stream, subject := "secretstream-"+r.name, "secretsubject-"+r.name
		if _, err := r.srv.api.CreateStream(context.Background(), &client.CreateStreamRequest{Name: stream, Subject: subject}); err != nil {
			obs["err"] = err.Error()
			break
		}
		ctx, cancel := context.WithTimeout(context.Background(), 20*time.Second)
		_, err := r.srv.api.Publish(ctx, &client.PublishRequest{Stream: stream, Key: []byte("secretkey-" + r.name),
			Value: []byte("secretvalue-" + r.name), AckPolicy: client.AckPolicy_LEADER})
		cancel()
		if err != nil {
			obs["err"] = err.Error()
		}
		r.userData = true
		r.secrets["stream"] = []string{stream}
		r.secrets["subject"] = []string{subject}
		r.secrets["msgdata"] = []string{"secretkey-" + r.name, "secretvalue-" + r.name}
	case "Tick":
		r.waitMore(vC19Window)
	case "Stop":
		if r.srv != nil && r.started && !r.stopped {
			if err := r.srv.Stop(); err != nil {
				obs["err"] = err.Error()
			}
			r.stopped = true
		}
	}
	return obs
}

func TestVerifC19Server(t *testing.T) {
	sf := vLoadStimuli(t)
	tw := vOpenTrace(t)
	defer tw.Close()
	rec := &vC19Recorder{}
	old := http.DefaultTransport
	http.DefaultTransport = rec
	defer func() { http.DefaultTransport = old }()
	defer os.RemoveAll(storagePath)
	os.Unsetenv(vC19EnvVar)

	par := 6
	if v := os.Getenv("VERIF_PAR"); v != "" {
		fmt.Sscanf(v, "%d", &par)
	}
	// guarded mode: a collector that is wrongly started with a non-positive interval panics in its own
	// goroutine and kills the process; the runner turns that into an observation for the pending step
	intentPath := os.Getenv("VERIF_INTENT")
	if intentPath != "" {
		par = 1
	}
	var (
		wg    sync.WaitGroup
		outMu sync.Mutex
		jobs  = make(chan vBehaviour)
	)
	runOne := func(b vBehaviour, exclusive bool) {
		{
			{
				r := &vC19Run{t: t, id: b.ID, name: fmt.Sprintf("c19n%d", b.ID), route: b.Cfg["route"].(map[string]interface{}),
					rec: rec, secrets: map[string][]string{}, exclusive: exclusive, startIdx: rec.count()}
				lines := []interface{}{}
				put := func(l map[string]interface{}) {
					if intentPath == "" {
						lines = append(lines, l)
						return
					}
					// guarded mode (one server at a time): every line is on disk before the next step starts
					tw.Emit(l)
					tw.w.Flush()
				}
				st := r.state()
				put(map[string]interface{}{"a": "Open", "t": b.ID, "route": r.route, "st": st,
					"obs": map[string]interface{}{"a": "Open", "err": ""}})
				for sn, s := range b.Steps {
					if intentPath != "" {
						ib, _ := json.Marshal(map[string]interface{}{"t": b.ID, "step": sn, "a": vStr(s, "a"), "route": r.route, "st": st})
						os.WriteFile(intentPath, ib, 0o644)
					}
					obs := r.step(vStr(s, "a"))
					st = r.state()
					put(map[string]interface{}{"a": vStr(s, "a"), "t": b.ID, "route": r.route, "st": st, "obs": obs})
				}
				if r.srv != nil && r.started && !r.stopped {
					r.srv.Stop()
				}
				outMu.Lock()
				for _, l := range lines {
					tw.Emit(l)
				}
				outMu.Unlock()
			}
		}
	}
	isExclusive := func(b vBehaviour) bool {
		return vStr(b.Cfg["route"].(map[string]interface{}), "idfile") != "ok"
	}
	for w := 0; w < par; w++ {
		wg.Add(1)
		go func() {
			defer wg.Done()
			for b := range jobs {
				runOne(b, false)
			}
		}()
	}
	for _, b := range sf.Behaviours {
		if !isExclusive(b) {
			jobs <- b
		}
	}
	close(jobs)
	wg.Wait()
	// servers whose requests cannot be attributed through an instance-id file run alone, one after the other
	exclusiveFrom := rec.count()
	for _, b := range sf.Behaviours {
		if isExclusive(b) {
			runOne(b, true)
		}
	}
	// requests that belong to no server of this run
	known := map[string]bool{}
	for _, b := range sf.Behaviours {
		if d, err := os.ReadFile(filepath.Join(storagePath, fmt.Sprintf("c19n%d", b.ID), ".instance_id")); err == nil {
			known[strings.TrimSpace(string(d))] = true
		}
	}
	un := 0
	rec.mu.Lock()
	for k, q := range rec.reqs {
		if !known[q.id] && k < exclusiveFrom {
			un++
		}
	}
	total := len(rec.reqs)
	rec.mu.Unlock()
	tw.Emit(map[string]interface{}{"a": "Global", "t": 0, "unattributed": un, "total": total})
}
