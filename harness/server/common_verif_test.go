//go:build verif

package server

// Shared helpers of the verification harnesses (package server).
// Everything here is test-only and compiled only with `-tags verif`; the files
// are injected with `go test -overlay`, /repo is never modified.

import (
	"bufio"
	"context"
	"encoding/json"
	"os"
	"testing"
)

// vCancelledCtx returns an already cancelled context: a commit-log reader that
// would block returns immediately instead (non-blocking drain).
func vCancelledCtx() context.Context {
	ctx, cancel := context.WithCancel(context.Background())
	cancel()
	return ctx
}

// ---- stimulus / trace I/O -------------------------------------------------

type vStimFile struct {
	Behaviours []vBehaviour `json:"behaviours"`
}

type vBehaviour struct {
	ID    int                      `json:"id"`
	Cfg   map[string]interface{}   `json:"cfg"`
	Steps []map[string]interface{} `json:"steps"`
}

func vLoadStimuli(t *testing.T) *vStimFile {
	p := os.Getenv("VERIF_STIMULI")
	if p == "" {
		t.Skip("VERIF_STIMULI not set")
	}
	b, err := os.ReadFile(p)
	if err != nil {
		t.Fatalf("read stimuli: %v", err)
	}
	var sf vStimFile
	if err := json.Unmarshal(b, &sf); err != nil {
		t.Fatalf("parse stimuli: %v", err)
	}
	return &sf
}

type vTraceWriter struct {
	f *os.File
	w *bufio.Writer
}

func vOpenTrace(t *testing.T) *vTraceWriter {
	p := os.Getenv("VERIF_TRACE_OUT")
	if p == "" {
		t.Fatalf("VERIF_TRACE_OUT not set")
	}
	f, err := os.Create(p)
	if err != nil {
		t.Fatalf("create trace: %v", err)
	}
	return &vTraceWriter{f: f, w: bufio.NewWriterSize(f, 1<<20)}
}

func (tw *vTraceWriter) Emit(ev interface{}) {
	b, err := json.Marshal(ev)
	if err != nil {
		panic(err)
	}
	tw.w.Write(b)
	tw.w.WriteByte('\n')
}

func (tw *vTraceWriter) Close() {
	tw.w.Flush()
	tw.f.Close()
}

func vInt(m map[string]interface{}, k string) int64 {
	v, ok := m[k]
	if !ok {
		panic("missing int field " + k)
	}
	return int64(v.(float64))
}

func vIntDef(m map[string]interface{}, k string, d int64) int64 {
	v, ok := m[k]
	if !ok {
		return d
	}
	return int64(v.(float64))
}

func vStr(m map[string]interface{}, k string) string {
	v, ok := m[k]
	if !ok {
		panic("missing string field " + k)
	}
	return v.(string)
}

func vStrDef(m map[string]interface{}, k, d string) string {
	v, ok := m[k]
	if !ok {
		return d
	}
	return v.(string)
}

func vBool(m map[string]interface{}, k string) bool {
	v, ok := m[k]
	if !ok {
		return false
	}
	return v.(bool)
}

func vList(m map[string]interface{}, k string) []map[string]interface{} {
	v, ok := m[k]
	if !ok {
		return nil
	}
	arr := v.([]interface{})
	out := make([]map[string]interface{}, len(arr))
	for i, x := range arr {
		out[i] = x.(map[string]interface{})
	}
	return out
}

