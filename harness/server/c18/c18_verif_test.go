//go:build verif

package server

// C18 - the activity stream lists metadata changes in commit order, at least once.
//
// Lock-step replay of Activity.tla behaviours on real servers with the activity
// stream enabled.  The dispatcher goroutine of the real server is sequenced
// through the gate "activity.published.<server id>" (between the publish to
// `__activity` and the PUBLISH_ACTIVITY proposal): every publish parks there until
// the behaviour says "record" (release) or "crash" (server stopped, record lost).
// Publish failures are induced by making the commit log of the `__activity`
// partition read-only in memory (the publish is rejected, the dispatcher backs off
// and retries).  Restart = a new Server over the same data directory.
//
// The driver only executes intents and records what the real system did: after
// every step one ndjson line with the committed Raft log (read from the log
// store, one [k, c, pi] per index), the activity stream read back from offset 0
// and the in-memory lastPublished.  TLC takes the verdict (Trace_Activity.tla).

import (
	"context"
	"fmt"
	"os"
	"path/filepath"
	"runtime"
	"sort"
	"strings"
	"sync"
	"sync/atomic"
	"testing"
	"time"

	"github.com/hashicorp/raft"
	client "github.com/liftbridge-io/liftbridge-api/v2/go"
	pb "google.golang.org/protobuf/proto"

	"github.com/liftbridge-io/liftbridge/server/commitlog"
	"github.com/liftbridge-io/liftbridge/server/logger"
	proto "github.com/liftbridge-io/liftbridge/server/protocol"
)

const vC18Deadline = 20 * time.Second

// ---- gate ------------------------------------------------------------------

type vC18Gate struct {
	mu      sync.Mutex
	parked  bool
	open    bool            // true: do not park (shutdown in progress / gate not used)
	release []chan struct{} // one per parked goroutine (two servers append in one process)
}

var (
	vC18GatesMu sync.Mutex
	vC18Gates   = map[string]*vC18Gate{}
)

func vC18GateFor(id string) *vC18Gate {
	vC18GatesMu.Lock()
	defer vC18GatesMu.Unlock()
	return vC18Gates[id]
}

// The dispatcher goroutine is recognised by the function it runs.  The name is not
// written down here: it is learned from the stack of the goroutine that arrives at
// the gate (the outermost frame, or the one inside the server's generic
// startGoroutine wrapper), so a renamed dispatcher is still found.
var vC18DispFn atomic.Value // string

func vC18LearnDispatcher() {
	if vC18DispFn.Load() != nil {
		return
	}
	buf := make([]byte, 16<<10)
	buf = buf[:runtime.Stack(buf, false)]
	var fns []string
	for _, ln := range strings.Split(string(buf), "\n")[1:] {
		if ln == "" || ln[0] == '\t' || strings.HasPrefix(ln, "created by ") {
			continue
		}
		if i := strings.LastIndex(ln, "("); i > 0 {
			ln = ln[:i]
		}
		fns = append(fns, ln)
	}
	if len(fns) == 0 {
		return
	}
	fn := fns[len(fns)-1]
	if strings.Contains(fn, "startGoroutine") && len(fns) > 1 {
		fn = fns[len(fns)-2]
	}
	vC18DispFn.Store(fn)
}

// dispatcher goroutines of the FOREIGN cluster's server (same process): it is the
// controller of its own cluster from its start to the end of the behaviour
var vC18ForeignDisps int64

// number of goroutines of this process that run the dispatcher function on behalf of the
// cluster under test; -1 = not known yet
func vC18Dispatchers() int64 {
	n := vC18AllDispatchers()
	if n > 0 {
		n -= atomic.LoadInt64(&vC18ForeignDisps)
		if n < 0 {
			n = 0
		}
	}
	return n
}

func vC18AllDispatchers() int64 {
	v := vC18DispFn.Load()
	if v == nil {
		return -1
	}
	fn := v.(string) + "("
	buf := make([]byte, 4<<20)
	buf = buf[:runtime.Stack(buf, true)]
	n := int64(0)
	for _, g := range strings.Split(string(buf), "\n\n") {
		if strings.Contains(g, fn) {
			n++
		}
	}
	return n
}

// vC18DispatcherIdle: every dispatcher goroutine is BLOCKED (select / channel receive /
// condition wait - not runnable, not running, not sleeping, not in a system call or I/O)
// and every frame from the top of its stack down to the dispatcher function lies in
// the activity manager's own source file: it waits for the next commit (or sits in a
// back-off) - it is not inside a publish, a Raft proposal or a log-store read that is
// merely slow.  A goroutine whose channel has received something is runnable, so
// machine load cannot make a working dispatcher look idle.
func vC18DispatcherIdle() bool {
	v := vC18DispFn.Load()
	if v == nil {
		return false
	}
	fn := v.(string) + "("
	buf := make([]byte, 4<<20)
	buf = buf[:runtime.Stack(buf, true)]
	found := false
	for _, g := range strings.Split(string(buf), "\n\n") {
		if !strings.Contains(g, fn) {
			continue
		}
		found = true
		lines := strings.Split(g, "\n")
		hdr := lines[0]
		i := strings.Index(hdr, "[")
		if i < 0 {
			return false
		}
		state := hdr[i+1:]
		if !(strings.HasPrefix(state, "select") || strings.HasPrefix(state, "chan receive") ||
			strings.HasPrefix(state, "sync.Cond.Wait")) {
			return false
		}
		file := ""
		for k := 1; k+1 < len(lines); k += 2 {
			loc := strings.TrimSpace(lines[k+1])
			if j := strings.LastIndex(loc, ":"); j > 0 {
				loc = loc[:j]
			}
			if strings.HasPrefix(lines[k], fn) {
				file = loc
				break
			}
		}
		if file == "" {
			return false
		}
		for k := 1; k+1 < len(lines); k += 2 {
			loc := strings.TrimSpace(lines[k+1])
			if j := strings.LastIndex(loc, ":"); j > 0 {
				loc = loc[:j]
			}
			if loc != file {
				return false
			}
			if strings.HasPrefix(lines[k], fn) {
				break
			}
		}
	}
	return found
}

func vC18Hook(name string) {
	const pfx = "activity.published."
	if !strings.HasPrefix(name, pfx) {
		return
	}
	vC18LearnDispatcher()
	g := vC18GateFor(name[len(pfx):])
	if g == nil {
		return
	}
	g.mu.Lock()
	if g.open {
		g.mu.Unlock()
		return
	}
	g.parked = true
	ch := make(chan struct{})
	g.release = append(g.release, ch)
	g.mu.Unlock()
	<-ch
}

// Second gate: the commit-log Append of the `__activity` partition (the only log
// that receives messages in these scenarios) is held at "append.before_write".
// A publish that is confirmed before it returns cannot let the dispatcher reach the
// publish gate while its message is still held here; a publish that returns
// without confirmation can - then the driver leaves the message held over the
// record step and the recorded state shows a lastPublished that is ahead of the
// stream.  vC18AppendGrace only decides how long the driver looks for that; on
// code that confirms its publishes nothing can be observed however long it waits.
var vC18Append = &vC18Gate{open: true}

const vC18AppendGrace = 20 * time.Millisecond

func vC18AppendHook(name string) {
	if name != "append.before_write" {
		return
	}
	g := vC18Append
	g.mu.Lock()
	if g.open {
		g.mu.Unlock()
		return
	}
	g.parked = true
	ch := make(chan struct{})
	g.release = append(g.release, ch)
	g.mu.Unlock()
	<-ch
}

func (g *vC18Gate) isParked() bool {
	g.mu.Lock()
	defer g.mu.Unlock()
	return g.parked
}

// releaseOne lets the parked dispatcher continue (no-op if nothing is parked).
func (g *vC18Gate) releaseOne() bool {
	g.mu.Lock()
	defer g.mu.Unlock()
	if !g.parked {
		return false
	}
	g.parked = false
	for _, ch := range g.release {
		close(ch)
	}
	g.release = nil
	return true
}

func (g *vC18Gate) setOpen(open bool) {
	g.mu.Lock()
	g.open = open
	g.mu.Unlock()
}

// ---- logger wrapper: counts the dispatcher's failure reports -----------------

type vC18Logger struct {
	logger.Logger
	pubFails *int64
	recFails *int64
}

func (l *vC18Logger) Errorf(format string, v ...interface{}) {
	if strings.HasPrefix(format, "Failed to publish activity event") {
		msg := fmt.Sprintf(format, v...)
		if os.Getenv("VERIF_DEBUG") != "" {
			fmt.Fprintln(os.Stderr, "C18 dispatcher:", msg)
		}
		if strings.Contains(msg, "failed to update Raft") {
			atomic.AddInt64(l.recFails, 1)
		} else {
			atomic.AddInt64(l.pubFails, 1)
		}
	}
	l.Logger.Errorf(format, v...)
}

// ---- projections -------------------------------------------------------------

type vC18Entry struct {
	K  string `json:"k"`
	C  string `json:"c"`
	Pi int64  `json:"pi"`
}

type vC18Ev struct {
	ID int64  `json:"id"`
	C  string `json:"c"`
}

type vC18State struct {
	Rlog     []vC18Entry `json:"rlog"`
	First    int64       `json:"first"`
	Snap     int64       `json:"snap"`
	Trailing int64       `json:"trailing"` // TrailingLogs the server configured its Raft node with
	DispFn   string      `json:"dispfn"`   // the dispatcher function as learned at the publish gate
	Pub      []vC18Ev    `json:"pub"`
	Lp       int64       `json:"lp"`
	Up       bool        `json:"up"`
	Leader   bool        `json:"leader"`
	Blocked  bool        `json:"blocked"`
	Parked   bool        `json:"parked"`
	Disps    int64       `json:"dispatchers"`
	Ack      string      `json:"ack"`
	PubFails int64       `json:"pubfails"`
	RecFails int64       `json:"recfails"`
}

type vC18Obs struct {
	Err string `json:"err"`
}

type vC18Event struct {
	T    int                    `json:"t"`
	A    string                 `json:"a"`
	Args map[string]interface{} `json:"args"`
	St   vC18State              `json:"st"`
	Obs  vC18Obs                `json:"obs"`
}

func vC18Ints(xs []int32) string {
	s := make([]string, len(xs))
	for i, x := range xs {
		s[i] = fmt.Sprint(x)
	}
	return strings.Join(s, ",")
}

// content of the event an operation of the Raft log must produce ("" + kind N: none)
func vC18OpEntry(l *raft.Log) vC18Entry {
	if l.Type != raft.LogCommand {
		return vC18Entry{K: "S"}
	}
	op := new(proto.RaftLog)
	if err := op.Unmarshal(l.Data); err != nil {
		return vC18Entry{K: "N", C: "undecodable"}
	}
	switch op.Op {
	case proto.Op_CREATE_STREAM:
		ids := make([]int32, len(op.CreateStreamOp.Stream.Partitions))
		for i, p := range op.CreateStreamOp.Stream.Partitions {
			ids[i] = p.Id
		}
		return vC18Entry{K: "E", C: "CREATE_STREAM:" + op.CreateStreamOp.Stream.Name + ":" + vC18Ints(ids)}
	case proto.Op_DELETE_STREAM:
		return vC18Entry{K: "E", C: "DELETE_STREAM:" + op.DeleteStreamOp.Stream}
	case proto.Op_PAUSE_STREAM:
		return vC18Entry{K: "E", C: fmt.Sprintf("PAUSE_STREAM:%s:%s:%v", op.PauseStreamOp.Stream,
			vC18Ints(op.PauseStreamOp.Partitions), op.PauseStreamOp.ResumeAll)}
	case proto.Op_RESUME_STREAM:
		return vC18Entry{K: "E", C: fmt.Sprintf("RESUME_STREAM:%s:%s", op.ResumeStreamOp.Stream,
			vC18Ints(op.ResumeStreamOp.Partitions))}
	case proto.Op_SET_STREAM_READONLY:
		return vC18Entry{K: "E", C: fmt.Sprintf("SET_STREAM_READONLY:%s:%s:%v", op.SetStreamReadonlyOp.Stream,
			vC18Ints(op.SetStreamReadonlyOp.Partitions), op.SetStreamReadonlyOp.Readonly)}
	case proto.Op_CREATE_CONSUMER_GROUP:
		members := op.CreateConsumerGroupOp.ConsumerGroup.Members
		if len(members) == 0 {
			return vC18Entry{K: "N", C: "CREATE_CONSUMER_GROUP:empty"}
		}
		return vC18Entry{K: "E", C: fmt.Sprintf("JOIN_CONSUMER_GROUP:%s:%s:%s",
			op.CreateConsumerGroupOp.ConsumerGroup.Id, members[0].Id, strings.Join(members[0].Streams, ","))}
	case proto.Op_JOIN_CONSUMER_GROUP:
		return vC18Entry{K: "E", C: fmt.Sprintf("JOIN_CONSUMER_GROUP:%s:%s:%s", op.JoinConsumerGroupOp.GroupId,
			op.JoinConsumerGroupOp.ConsumerId, strings.Join(op.JoinConsumerGroupOp.Streams, ","))}
	case proto.Op_LEAVE_CONSUMER_GROUP:
		return vC18Entry{K: "E", C: fmt.Sprintf("LEAVE_CONSUMER_GROUP:%s:%s:%v", op.LeaveConsumerGroupOp.GroupId,
			op.LeaveConsumerGroupOp.ConsumerId, op.LeaveConsumerGroupOp.Expired)}
	case proto.Op_PUBLISH_ACTIVITY:
		return vC18Entry{K: "P", Pi: int64(op.PublishActivityOp.RaftIndex)}
	}
	return vC18Entry{K: "N", C: op.Op.String()}
}

// content of an event read back from the activity stream
func vC18EventContent(e *client.ActivityStreamEvent) string {
	switch e.Op {
	case client.ActivityStreamOp_CREATE_STREAM:
		return "CREATE_STREAM:" + e.GetCreateStreamOp().GetStream() + ":" + vC18Ints(e.GetCreateStreamOp().GetPartitions())
	case client.ActivityStreamOp_DELETE_STREAM:
		return "DELETE_STREAM:" + e.GetDeleteStreamOp().GetStream()
	case client.ActivityStreamOp_PAUSE_STREAM:
		return fmt.Sprintf("PAUSE_STREAM:%s:%s:%v", e.GetPauseStreamOp().GetStream(),
			vC18Ints(e.GetPauseStreamOp().GetPartitions()), e.GetPauseStreamOp().GetResumeAll())
	case client.ActivityStreamOp_RESUME_STREAM:
		return fmt.Sprintf("RESUME_STREAM:%s:%s", e.GetResumeStreamOp().GetStream(),
			vC18Ints(e.GetResumeStreamOp().GetPartitions()))
	case client.ActivityStreamOp_SET_STREAM_READONLY:
		return fmt.Sprintf("SET_STREAM_READONLY:%s:%s:%v", e.GetSetStreamReadonlyOp().GetStream(),
			vC18Ints(e.GetSetStreamReadonlyOp().GetPartitions()), e.GetSetStreamReadonlyOp().GetReadonly())
	case client.ActivityStreamOp_JOIN_CONSUMER_GROUP:
		return fmt.Sprintf("JOIN_CONSUMER_GROUP:%s:%s:%s", e.GetJoinConsumerGroupOp().GetGroupId(),
			e.GetJoinConsumerGroupOp().GetConsumerId(), strings.Join(e.GetJoinConsumerGroupOp().GetStreams(), ","))
	case client.ActivityStreamOp_LEAVE_CONSUMER_GROUP:
		return fmt.Sprintf("LEAVE_CONSUMER_GROUP:%s:%s:%v", e.GetLeaveConsumerGroupOp().GetGroupId(),
			e.GetLeaveConsumerGroupOp().GetConsumerId(), e.GetLeaveConsumerGroupOp().GetExpired())
	}
	return "UNKNOWN:" + e.Op.String()
}

// ---- one node ----------------------------------------------------------------

type vC18Node struct {
	id       string
	srv      *Server
	gate     *vC18Gate
	pubFails int64
	recFails int64
	blocked  bool
	blockHow string // "readonly": rejected before it is sent; "nack": the partition answers with an error ack
	maxBytes int64
	stepped  bool // leadershipLost was played, leadershipAcquired not yet
}

type vC18Run struct {
	t     *testing.T
	bid   int
	nodes map[string]*vC18Node
	order []string
	// committed entries never change: cache (also covers compacted prefixes and
	// the time the server is down)
	rlog         []vC18Entry
	first        int64
	snap         int64
	pub          []vC18Ev
	seenPubFails int64
	// an observation that could not be taken (the stream or the log store was not
	// readable in time): the line must not be recorded with a stale projection -
	// the behaviour is abandoned (inconclusive), never judged on it
	obsErr string
	// A second CLUSTER (one server "f", its own Raft log, its own namespace) on the same
	// NATS deployment.  When the behaviour has one, "f" runs the NATS server and the
	// cluster under test connects to it, so that restarts of "a" leave NATS alone.
	foreign   *Server
	foreignNS string // namespace of the foreign cluster ("" = the default namespace)
	ownNS     string // namespace of the cluster under test ("" = default)
	natsURL   string
	foreignN  int
	// configuration dimension: clustering.raft.snapshot.threshold of the cluster under
	// test (0 = not set)
	snapThreshold int
	trailing      int64
}

type vC18Inconclusive struct{ msg string }

// the awaited dispatcher step cannot come: the server is the controller (its
// promotion has run) and no dispatcher goroutine exists - observed continuously
// for vC18StallFor.  Recorded as a "Stalled" line; TLC judges it.
type vC18Stalled struct{ node *vC18Node }

const vC18StallFor = 3 * time.Second

// Bounded liveness as a recorded observation.  While a dispatcher step is awaited the
// driver watches for QUIESCENCE: the server is up and controller (promotion finished),
// nothing blocks the activity partition, no step-down is pending, the dispatcher is not
// held at either gate, and for vC18QuietFor nothing at all happened: no publish, no
// record, no failure report (a dispatcher that retries logs a failure at least every
// maxActivityPublishBackoff + publish timeout = 12 s), Raft idle.  Such a state is
// recorded as a "Quiet" line; TLC requires that nothing committed is unpublished in it
// (C18_IdleMeansPublished).  Nothing is fed to the server afterwards.
type vC18Quiet struct {
	node *vC18Node
	what string
}

const (
	vC18QuietFor     = 15 * time.Second
	vC18QuietSamples = 200 // samples >= 25 ms apart in which the dispatcher was seen blocked in its own code
	vC18WaitDeadline = 60 * time.Second
)

type vC18Pulse struct {
	pubFails, recFails, lp, newest int64
	raftLast                       uint64
}

func (r *vC18Run) pulse(n *vC18Node) vC18Pulse {
	p := vC18Pulse{pubFails: atomic.LoadInt64(&n.pubFails), recFails: atomic.LoadInt64(&n.recFails),
		lp: int64(n.srv.activity.LastPublishedRaftIndex()), newest: -1}
	if part := n.activityPartition(); part != nil && part.log != nil {
		p.newest = part.log.NewestOffset()
	}
	p.raftLast = n.srv.getRaft().LastIndex()
	return p
}

func (r *vC18Run) waitDispatcher(n *vC18Node, what string, cond func() bool) {
	deadline := time.Now().Add(vC18WaitDeadline)
	var zeroSince, quietSince time.Time
	var last vC18Pulse
	zeroSamples, quietSamples := 0, 0
	for !cond() {
		now := time.Now()
		if now.After(deadline) {
			vC18Fail("timeout waiting for %s", what)
		}
		ctl := n.srv != nil && n.srv.IsRunning() && n.srv.getRaft() != nil && n.srv.IsLeader() && !n.stepped
		if ctl && vC18Dispatchers() == 0 {
			// (the window counts samples as well as wall time: a process that is not
			//  scheduled for seconds collects no samples)
			if zeroSince.IsZero() {
				zeroSince, zeroSamples = now, 0
			} else if zeroSamples++; now.Sub(zeroSince) > vC18StallFor && zeroSamples >= 100 {
				panic(vC18Stalled{n})
			}
			time.Sleep(20 * time.Millisecond)
			continue
		}
		zeroSince = time.Time{}
		if ctl && !n.blocked && !n.gate.isParked() && !vC18Append.isParked() {
			rn := n.srv.getRaft()
			cur := r.pulse(n)
			idle := rn.AppliedIndex() >= rn.LastIndex() && rn.getCommitIndex() >= rn.LastIndex()
			// the dispatcher itself must be seen blocked in its own code in EVERY sample of
			// the window (not a publish / proposal / read that is slow on a loaded machine)
			if quietSince.IsZero() || cur != last || !idle || !vC18DispatcherIdle() {
				quietSince, last, quietSamples = now, cur, 0
			} else if quietSamples++; now.Sub(quietSince) > vC18QuietFor && quietSamples >= vC18QuietSamples {
				panic(vC18Quiet{n, what})
			}
			time.Sleep(25 * time.Millisecond)
			continue
		}
		quietSince = time.Time{}
		time.Sleep(time.Millisecond)
	}
}

func vC18Fail(format string, a ...interface{}) {
	panic(vC18Inconclusive{fmt.Sprintf(format, a...)})
}

func vC18Wait(what string, cond func() bool) {
	deadline := time.Now().Add(vC18Deadline)
	for !cond() {
		if time.Now().After(deadline) {
			vC18Fail("timeout waiting for %s", what)
		}
		time.Sleep(time.Millisecond)
	}
}

func (r *vC18Run) config(id string, cluster bool) *Config {
	cfg := vOneNodeConfig(r.t, id)
	cfg.DataDir = filepath.Join(storagePath, fmt.Sprintf("c18-%d", r.bid), id)
	cfg.ActivityStream.Enabled = true
	cfg.ActivityStream.PublishTimeout = 2 * time.Second
	// the ack policy of the activity publishes is NOT set here: the server's default is
	// what decides whether "published" means "committed to the stream"; the effective
	// value is recorded (`ack`) and judged
	cfg.Groups.ConsumerTimeout = time.Hour
	cfg.Groups.CoordinatorTimeout = time.Hour
	cfg.Clustering.RaftSnapshots = 2
	if r.snapThreshold > 0 {
		cfg.Clustering.RaftSnapshotThreshold = uint64(r.snapThreshold)
	}
	if r.natsURL != "" {
		cfg.EmbeddedNATS = false
		cfg.NATS.Servers = []string{r.natsURL}
	}
	if r.ownNS != "" {
		cfg.Clustering.Namespace = r.ownNS
	}
	return cfg
}

// the foreign cluster: started before the cluster under test, never restarted, its
// dispatcher is not gated (no gate is registered for its server id)
func (r *vC18Run) startForeign() {
	cfg := vOneNodeConfig(r.t, "f")
	cfg.DataDir = filepath.Join(storagePath, fmt.Sprintf("c18-%d", r.bid), "f")
	cfg.ActivityStream.Enabled = true
	cfg.ActivityStream.PublishTimeout = 2 * time.Second
	cfg.Groups.ConsumerTimeout = time.Hour
	cfg.Groups.CoordinatorTimeout = time.Hour
	if r.foreignNS != "" {
		cfg.Clustering.Namespace = r.foreignNS
	}
	srv := New(cfg)
	if err := srv.Start(); err != nil {
		vC18Fail("foreign server did not start: %v", err)
	}
	r.foreign = srv
	r.natsURL = cfg.NATS.Servers[0]
	// its dispatcher is running once it has published the creation of its own activity
	// stream (the publish hook has then also learned the dispatcher function)
	vC18Wait("foreign cluster's controller and dispatcher", func() bool {
		vC18Append.releaseOne()
		return srv.IsRunning() && srv.getRaft() != nil && srv.IsLeader() && srv.activity.LastPublishedRaftIndex() > 0 &&
			vC18AllDispatchers() == 1
	})
	atomic.StoreInt64(&vC18ForeignDisps, 1)
}

// One operation committed on the FOREIGN cluster and published by its controller to its
// own activity stream (the append gate is shared by every commit log of the process:
// keep it open while waiting).  Returns what the foreign stream's newest event is.
func (r *vC18Run) foreignOp() string {
	f := r.foreign
	if f == nil {
		vC18Fail("ForeignOp: the behaviour has no foreign cluster")
	}
	r.foreignN++
	name := fmt.Sprintf("f%d", r.foreignN)
	ctx, cancel := context.WithTimeout(context.Background(), 10*time.Second)
	defer cancel()
	if _, err := f.api.CreateStream(ctx, &client.CreateStreamRequest{Name: name, Subject: "f." + name, Partitions: 1}); err != nil {
		vC18Fail("ForeignOp: %v", err)
	}
	// index of the operation in the foreign Raft log = the newest CREATE_STREAM command
	rn := f.getRaft()
	var opIdx uint64
	vC18Wait("foreign operation applied", func() bool {
		for i := rn.getCommitIndex(); i >= 1 && opIdx == 0; i-- {
			l := new(raft.Log)
			if err := rn.store.GetLog(i, l); err != nil {
				return false
			}
			if e := vC18OpEntry(l); e.K == "E" && e.C == "CREATE_STREAM:"+name+":0" {
				opIdx = i
			}
		}
		return opIdx > 0
	})
	vC18Wait("foreign event published", func() bool {
		vC18Append.releaseOne()
		return f.activity.LastPublishedRaftIndex() >= opIdx
	})
	// give a leaked event the time to arrive: one round trip through the same NATS
	// connection pair orders us behind the foreign publish
	if a := r.nodes[r.order[0]]; a.srv != nil && a.srv.IsRunning() {
		if err := a.srv.nc.Flush(); err != nil {
			vC18Fail("flush: %v", err)
		}
	}
	if err := f.nc.Flush(); err != nil {
		vC18Fail("flush: %v", err)
	}
	time.Sleep(20 * time.Millisecond)
	// a message that arrived at a partition of this process is now at the append gate
	vC18Append.releaseOne()
	time.Sleep(20 * time.Millisecond)
	return name
}

func (r *vC18Run) start(n *vC18Node) {
	cfg := r.config(n.id, false)
	srv := New(cfg)
	n.pubFails, n.recFails = 0, 0
	srv.logger = &vC18Logger{Logger: srv.logger, pubFails: &n.pubFails, recFails: &n.recFails}
	n.gate.setOpen(false)
	vC18Append.setOpen(false)
	if err := srv.Start(); err != nil {
		vC18Fail("server %s did not start: %v", n.id, err)
	}
	n.srv = srv
	n.blocked = false
	n.stepped = false
	r.seenPubFails = 0
}

func (r *vC18Run) stop(n *vC18Node) {
	if n.srv == nil {
		return
	}
	srv := n.srv
	done := make(chan struct{})
	vC18Append.setOpen(true)
	vC18Append.releaseOne()
	// raftNode.shutdown() closes the log store without waiting for Raft's own
	// goroutines (the Shutdown future is not awaited): stopping a node whose leader
	// loop is still committing panics inside hashicorp/raft ("database not open").
	// That shutdown race is outside C18 - stop only a Raft node that is idle.
	// Likewise a server stopped in the middle of its leader promotion panics in the
	// leadership loop ("error on metadata leadership step down"): let it finish.
	if rn := srv.getRaft(); rn != nil {
		for end := time.Now().Add(2 * time.Second); time.Now().Before(end); {
			promoting := rn.State() == raft.Leader && !srv.IsLeader()
			if !promoting && rn.AppliedIndex() >= rn.LastIndex() && rn.getCommitIndex() >= rn.LastIndex() {
				break
			}
			time.Sleep(time.Millisecond)
		}
		time.Sleep(5 * time.Millisecond)
	}
	// The gate stays closed until the server is shut down: a dispatcher that is
	// parked (or arrives) between publish and record then runs into the stopped
	// Raft node - the record is lost, as in a crash at that point.
	go func() { srv.Stop(); close(done) }()
	vC18Wait("shutdown flag", srv.isShutdown)
	n.gate.setOpen(true)
	n.gate.releaseOne()
	select {
	case <-done:
	case <-time.After(vC18Deadline):
		vC18Fail("server %s did not stop", n.id)
	}
	n.srv = nil
	n.blocked = false
}

func (n *vC18Node) activityPartition() *partition {
	if n.srv == nil {
		return nil
	}
	return n.srv.metadata.GetPartition(activityStream, 0)
}

// controller = the running node that is metadata leader
func (r *vC18Run) controller() *vC18Node {
	for _, id := range r.order {
		n := r.nodes[id]
		if n.srv != nil && n.srv.IsRunning() && n.srv.getRaft() != nil && n.srv.IsLeader() {
			return n
		}
	}
	return nil
}

func (r *vC18Run) anyUp() *vC18Node {
	if c := r.controller(); c != nil {
		return c
	}
	for _, id := range r.order {
		if n := r.nodes[id]; n.srv != nil {
			return n
		}
	}
	return nil
}

// refresh the cached committed log from node n's log store
func (r *vC18Run) readRaftLog(n *vC18Node) {
	rn := n.srv.getRaft()
	if rn == nil {
		return
	}
	defer func() { recover() }() // store closed concurrently
	commit := rn.getCommitIndex()
	firstIdx, err := rn.store.FirstIndex()
	if err != nil {
		return
	}
	r.first = int64(firstIdx)
	r.trailing = int64(rn.ReloadableConfig().TrailingLogs)
	for i := uint64(len(r.rlog)) + 1; i <= commit; i++ {
		l := new(raft.Log)
		if err := rn.store.GetLog(i, l); err != nil {
			if n.srv != nil && n.srv.IsRunning() && !n.srv.isShutdown() {
				r.obsErr = "committed Raft log not readable: " + err.Error()
			}
			return
		}
		r.rlog = append(r.rlog, vC18OpEntry(l))
	}
}

func (r *vC18Run) readPub(n *vC18Node) {
	p := n.activityPartition()
	if p == nil || p.log == nil {
		return
	}
	// what was written is committed a moment later: read a settled stream
	for end := time.Now().Add(2 * time.Second); p.log.HighWatermark() < p.log.NewestOffset() && time.Now().Before(end); {
		time.Sleep(200 * time.Microsecond)
	}
	hw := p.log.HighWatermark()
	if hw < 0 || hw < int64(len(r.pub))-1 {
		return
	}
	rd, err := p.log.NewReader(0, false)
	if err != nil {
		r.obsErr = "activity stream not readable: " + err.Error()
		return
	}
	ctx, cancel := context.WithTimeout(context.Background(), 20*time.Second)
	defer cancel()
	headers := make([]byte, 28)
	out := []vC18Ev{}
	for {
		m, off, _, _, err := rd.ReadMessage(ctx, headers)
		if err != nil {
			r.obsErr = "activity stream not readable up to its high watermark: " + err.Error()
			return
		}
		ev := new(client.ActivityStreamEvent)
		if err := pb.Unmarshal(m.Value(), ev); err != nil {
			out = append(out, vC18Ev{ID: -1, C: "undecodable"})
		} else {
			out = append(out, vC18Ev{ID: int64(ev.Id), C: vC18EventContent(ev)})
		}
		if off >= hw {
			break
		}
	}
	r.pub = out
}

func (r *vC18Run) state(focus *vC18Node) vC18State {
	st := vC18State{Rlog: []vC18Entry{}, Pub: []vC18Ev{}, Disps: -1}
	n := focus
	if n == nil || n.srv == nil {
		n = r.anyUp()
	}
	if n != nil && n.srv != nil {
		// the flags first: a dispatcher seen parked has published, so the stream
		// read afterwards contains its event (the observation is not atomic)
		st.Parked = n.gate.isParked()
		st.Lp = int64(n.srv.activity.LastPublishedRaftIndex())
		st.Disps = vC18Dispatchers()
		st.Ack = n.srv.config.ActivityStream.PublishAckPolicy.String()
		r.readRaftLog(n)
		r.readPub(n)
		st.Up = true
		st.Leader = n.srv.getRaft() != nil && n.srv.IsLeader()
		st.Blocked = n.blocked
		st.PubFails = atomic.LoadInt64(&n.pubFails)
		st.RecFails = atomic.LoadInt64(&n.recFails)
	}
	st.Rlog = append(st.Rlog, r.rlog...)
	st.Pub = append(st.Pub, r.pub...)
	st.First = r.first
	st.Snap = r.snap
	st.Trailing = r.trailing
	if v := vC18DispFn.Load(); v != nil {
		st.DispFn = v.(string)
	}
	return st
}

func vC18ErrClass(err error) string {
	if err == nil {
		return ""
	}
	return "err:" + err.Error()
}

// one metadata operation through the API handlers of server n
func (r *vC18Run) commitOp(n *vC18Node, step map[string]interface{}) error {
	ctx, cancel := context.WithTimeout(context.Background(), 10*time.Second)
	defer cancel()
	api := n.srv.api
	name := vStrDef(step, "name", "")
	switch vStr(step, "op") {
	case "create":
		_, err := api.CreateStream(ctx, &client.CreateStreamRequest{Name: name, Subject: "s." + name,
			Partitions: int32(vIntDef(step, "parts", 1))})
		return err
	case "delete":
		_, err := api.DeleteStream(ctx, &client.DeleteStreamRequest{Name: name})
		return err
	case "pause":
		_, err := api.PauseStream(ctx, &client.PauseStreamRequest{Name: name, ResumeAll: vBool(step, "resumeAll")})
		return err
	case "readonly":
		_, err := api.SetStreamReadonly(ctx, &client.SetStreamReadonlyRequest{Name: name, Readonly: vBool(step, "ro")})
		return err
	case "join":
		_, err := api.JoinConsumerGroup(ctx, &client.JoinConsumerGroupRequest{GroupId: vStr(step, "group"),
			ConsumerId: vStr(step, "consumer"), Streams: []string{name}})
		return err
	case "leave":
		_, err := api.LeaveConsumerGroup(ctx, &client.LeaveConsumerGroupRequest{GroupId: vStr(step, "group"),
			ConsumerId: vStr(step, "consumer")})
		return err
	}
	vC18Fail("unknown op %v", step["op"])
	return nil
}

func (r *vC18Run) node(step map[string]interface{}) *vC18Node {
	id := vStrDef(step, "n", r.order[0])
	n := r.nodes[id]
	if n == nil {
		vC18Fail("unknown node %s", id)
	}
	return n
}

// number of PUBLISH_ACTIVITY entries in the committed log read so far
func (r *vC18Run) countRecords() int {
	k := 0
	for _, e := range r.rlog {
		if e.K == "P" {
			k++
		}
	}
	return k
}

// Raft index of the newest PUBLISH_ACTIVITY entry read so far (0 = none)
func (r *vC18Run) lastRecordPos() uint64 {
	for i := len(r.rlog) - 1; i >= 0; i-- {
		if r.rlog[i].K == "P" {
			return uint64(i + 1)
		}
	}
	return 0
}

// lastPublished as replicated: pi of the last PUBLISH_ACTIVITY entry
func (r *vC18Run) lastRecorded() int64 {
	for i := len(r.rlog) - 1; i >= 0; i-- {
		if r.rlog[i].K == "P" {
			return r.rlog[i].Pi
		}
	}
	return 0
}

func (r *vC18Run) step(step map[string]interface{}) (ev vC18Event) {
	a := vStr(step, "a")
	ev = vC18Event{T: r.bid, A: a, Args: map[string]interface{}{}}
	for k, v := range step {
		if k != "a" {
			ev.Args[k] = v
		}
	}
	var focus *vC18Node
	if a != "RecordPublished" {
		vC18Append.releaseOne()
	}
	switch a {
	case "Start":
		n := r.node(step)
		focus = n
		if n.srv == nil {
			r.start(n)
		}
	case "StepDown":
		// the controller loses the leadership and its process keeps running: the entry
		// point the Raft leadership loop of server.go calls for `false` on notifyCh
		n := r.node(step)
		focus = n
		if n.srv == nil || !n.srv.IsLeader() {
			vC18Fail("StepDown: %s is not the controller", n.id)
		}
		if err := n.srv.leadershipLost(n.srv.getRaft()); err != nil {
			vC18Fail("leadershipLost: %v", err)
		}
		n.stepped = true
		if !n.gate.isParked() {
			vC18Wait("old dispatcher of "+n.id+" to exit", func() bool { return vC18Dispatchers() <= 0 })
		}
	case "Elect":
		// single server: it elects itself; several servers: see TakeOver
		n := r.node(step)
		focus = n
		if n.stepped {
			// same process elected again: the entry point the leadership loop calls
			// for `true` on notifyCh (Barrier entry, BecomeLeader, setLeader)
			if err := n.srv.leadershipAcquired(n.srv.getRaft()); err != nil {
				vC18Fail("leadershipAcquired: %v", err)
			}
			n.stepped = false
			break
		}
		vC18Wait("raft leadership of "+n.id, func() bool {
			if !(n.srv != nil && n.srv.IsRunning() && n.srv.getRaft() != nil && n.srv.getRaft().State() == raft.Leader) {
				return false
			}
			// the new leader's no-op entry is committed (the election is visible in the committed log)
			rn := n.srv.getRaft()
			return rn.getCommitIndex() > uint64(len(r.rlog)) && rn.getCommitIndex() >= rn.LastIndex()-2
		})
	case "BecomeLeader":
		n := r.node(step)
		focus = n
		vC18Wait("metadata leadership of "+n.id, func() bool {
			return n.srv != nil && n.srv.IsRunning() && n.srv.getRaft() != nil && n.srv.IsLeader()
		})
	case "CommitOp":
		n := r.controller()
		if n == nil {
			vC18Fail("no controller for CommitOp")
		}
		focus = n
		ev.Obs.Err = vC18ErrClass(r.commitOp(n, step))
	case "DispatchPublish":
		n := r.node(step)
		focus = n
		var heldSince time.Time
		r.waitDispatcher(n, "dispatcher of "+n.id+" parked after a publish", func() bool {
			if n.gate.isParked() {
				return true
			}
			if vC18Append.isParked() {
				if heldSince.IsZero() {
					heldSince = time.Now()
				} else if time.Since(heldSince) > vC18AppendGrace {
					vC18Append.releaseOne()
					heldSince = time.Time{}
				}
			}
			return false
		})
	case "RecordPublished":
		n := r.node(step)
		focus = n
		// the step is over when the record has been COMMITTED AND APPLIED (one more
		// PUBLISH_ACTIVITY entry in the log store, applied by the FSM - whatever that
		// makes of it) or has failed - whatever the dispatcher believed it had published
		r.state(n)
		pBefore := r.countRecords()
		before := atomic.LoadInt64(&n.recFails)
		pubBefore := atomic.LoadInt64(&n.pubFails)
		if !n.gate.releaseOne() {
			vC18Fail("RecordPublished: dispatcher of %s is not parked", n.id)
		}
		vC18Wait("lastPublished record", func() bool {
			if atomic.LoadInt64(&n.recFails) > before {
				return true
			}
			r.readRaftLog(n)
			if !(r.countRecords() > pBefore && n.srv.getRaft().AppliedIndex() >= r.lastRecordPos()) {
				return false
			}
			// Raft counts an entry as applied when it is handed to the FSM goroutine; the
			// proposal returns to the dispatcher after the FSM has applied it: the record is
			// over when the dispatcher has moved on (parked behind its next publish, waiting
			// for the next commit, or reporting a failure)
			return n.gate.isParked() || vC18DispatcherIdle() || atomic.LoadInt64(&n.pubFails) != pubBefore
		})
	case "RecordFail":
		// only reachable for a dispatcher whose server lost the leadership
		n := r.node(step)
		focus = n
		before := atomic.LoadInt64(&n.recFails)
		if !n.gate.releaseOne() {
			vC18Fail("RecordFail: dispatcher of %s is not parked", n.id)
		}
		vC18Wait("record failure", func() bool { return atomic.LoadInt64(&n.recFails) > before })
	case "PublishFail":
		n := r.node(step)
		focus = n
		// expected: a failure report.  A dispatcher that arrives at the publish gate
		// instead (its publish "succeeded") is simply recorded - the next steps go on.
		r.waitDispatcher(n, "publish failure", func() bool {
			return atomic.LoadInt64(&n.pubFails) > r.seenPubFails || n.gate.isParked()
		})
		if atomic.LoadInt64(&n.pubFails) > r.seenPubFails {
			r.seenPubFails++
		}
	case "Backoff", "DispatchSkip", "NoticeLost", "DispatchExit":
		focus = r.nodes[vStrDef(step, "n", r.order[0])]
	case "Block", "Unblock":
		n := r.controller()
		if n == nil {
			n = r.anyUp()
		}
		if n == nil {
			vC18Fail("no server for %s", a)
		}
		focus = n
		p := n.activityPartition()
		if p == nil {
			vC18Fail("no activity partition on %s", n.id)
		}
		if a == "Block" {
			n.blockHow = vStrDef(step, "how", "readonly")
			switch n.blockHow {
			case "nack":
				// every event is larger than what the partition accepts: the publish is
				// delivered and answered with an error ack (TOO_LARGE), nothing is stored
				n.maxBytes = n.srv.config.Clustering.ReplicationMaxBytes
				n.srv.config.Clustering.ReplicationMaxBytes = 1
			default:
				p.log.SetReadonly(true)
			}
			n.blocked = true
		} else {
			switch n.blockHow {
			case "nack":
				n.srv.config.Clustering.ReplicationMaxBytes = n.maxBytes
			default:
				p.log.SetReadonly(false)
			}
			n.blocked = false
		}
	case "Crash":
		n := r.node(step)
		if n.srv != nil {
			r.state(n) // last look at the log store before it is closed
			r.stop(n)
		}
	case "Snapshot":
		n := r.node(step)
		focus = n
		// the log store is compacted as the SERVER configured its Raft node (TrailingLogs
		// is whatever createRaftNode made of the configuration; recorded as `keep`)
		rn := n.srv.getRaft()
		ev.Args["keep"] = int64(rn.ReloadableConfig().TrailingLogs)
		if err := rn.Snapshot().Error(); err != nil {
			ev.Obs.Err = vC18ErrClass(err)
		} else {
			r.readRaftLog(n)
			r.snap = int64(len(r.rlog))
		}
	case "ForeignOp":
		focus = r.controller()
		if focus == nil {
			focus = r.anyUp()
		}
		ev.Args["name"] = r.foreignOp()
	case "Sleep":
		time.Sleep(time.Duration(vIntDef(step, "ms", 100)) * time.Millisecond)
	case "Settle":
		// release the dispatcher until nothing is left to publish (not a model step)
		n := r.controller()
		if n == nil {
			vC18Fail("no controller for Settle")
		}
		focus = n
		vC18Wait("dispatcher to catch up", func() bool {
			n.gate.releaseOne()
			vC18Append.releaseOne()
			r.readRaftLog(n)
			last := int64(0)
			for i, e := range r.rlog {
				if e.K == "E" {
					last = int64(i + 1)
				}
			}
			return int64(n.srv.activity.LastPublishedRaftIndex()) >= last
		})
	default:
		vC18Fail("unknown step %s", a)
	}
	ev.St = r.state(focus)
	if r.obsErr != "" {
		msg := r.obsErr
		r.obsErr = ""
		vC18Fail("observation failed: %s", msg)
	}
	return ev
}

// A dispatcher step that was awaited did not come in time.  Before the behaviour is
// given up (inconclusive), one more operation is committed and the dispatcher is let
// run freely for a while: if THAT operation's event shows up while an earlier one is
// still missing, the recorded state violates C18_NoSkip - a verdict that does not
// depend on how long anybody waited.  If nothing shows up nothing is concluded.
func (r *vC18Run) probe() (ev vC18Event, ok bool) {
	defer func() {
		if p := recover(); p != nil {
			ok = false
		}
	}()
	n := r.controller()
	if n == nil || n.blocked || n.stepped {
		return ev, false
	}
	name := fmt.Sprintf("probe%d", r.bid)
	step := map[string]interface{}{"a": "CommitOp", "op": "create", "name": name}
	if err := r.commitOp(n, step); err != nil {
		return ev, false
	}
	want := "CREATE_STREAM:" + name + ":0"
	deadline := time.Now().Add(5 * time.Second)
	for time.Now().Before(deadline) {
		n.gate.releaseOne()
		vC18Append.releaseOne()
		r.readPub(n)
		if len(r.pub) > 0 && r.pub[len(r.pub)-1].C == want {
			break
		}
		time.Sleep(2 * time.Millisecond)
	}
	r.obsErr = ""
	ev = vC18Event{T: r.bid, A: "Probe", Args: map[string]interface{}{"name": name}, St: r.state(n)}
	return ev, r.obsErr == ""
}

func (r *vC18Run) closeAll() {
	defer func() {
		if f := r.foreign; f != nil {
			r.foreign = nil
			defer atomic.StoreInt64(&vC18ForeignDisps, 0)
			done := make(chan struct{})
			go func() { defer close(done); defer func() { recover() }(); f.Stop() }()
			select {
			case <-done:
			case <-time.After(vC18Deadline):
			}
		}
		os.RemoveAll(filepath.Join(storagePath, fmt.Sprintf("c18-%d", r.bid)))
	}()
	for _, id := range r.order {
		n := r.nodes[id]
		func() {
			defer func() { recover() }()
			r.stop(n)
		}()
	}
}

func TestVerifC18(t *testing.T) {
	sf := vLoadStimuli(t)
	tw := vOpenTrace(t)
	defer tw.Close()
	VerifGateHook = vC18Hook
	commitlog.VerifGateHook = vC18AppendHook
	defer func() { VerifGateHook = nil; commitlog.VerifGateHook = nil }()
	timeouts := 0
	for _, b := range sf.Behaviours {
		nodes := []string{"a"}
		if v, ok := b.Cfg["nodes"]; ok {
			nodes = nil
			for _, x := range v.([]interface{}) {
				nodes = append(nodes, x.(string))
			}
			sort.Strings(nodes)
		}
		r := &vC18Run{t: t, bid: b.ID, nodes: map[string]*vC18Node{}, order: nodes, first: 1}
		if v, ok := b.Cfg["snapthreshold"]; ok {
			r.snapThreshold = int(v.(float64))
		}
		vC18GatesMu.Lock()
		for _, id := range nodes {
			g := &vC18Gate{}
			vC18Gates[id] = g
			r.nodes[id] = &vC18Node{id: id, gate: g}
		}
		vC18GatesMu.Unlock()
		os.RemoveAll(filepath.Join(storagePath, fmt.Sprintf("c18-%d", r.bid)))
		func() {
			defer r.closeAll()
			defer func() {
				if p := recover(); p != nil {
					if stl, ok := p.(vC18Stalled); ok {
						r.obsErr = ""
						ev := vC18Event{T: b.ID, A: "Stalled", Args: map[string]interface{}{"n": stl.node.id}, St: r.state(stl.node)}
						if r.obsErr != "" {
							timeouts++
							tw.Emit(map[string]interface{}{"t": b.ID, "a": "Abandoned", "why": "observation failed: " + r.obsErr})
							return
						}
						tw.Emit(ev)
						tw.Emit(map[string]interface{}{"t": b.ID, "a": "Completed"})
						return
					}
					if q, ok := p.(vC18Quiet); ok {
						r.obsErr = ""
						ev := vC18Event{T: b.ID, A: "Quiet", Args: map[string]interface{}{"n": q.node.id,
							"ms": int64(vC18QuietFor / time.Millisecond)}, St: r.state(q.node)}
						if r.obsErr != "" {
							timeouts++
							tw.Emit(map[string]interface{}{"t": b.ID, "a": "Abandoned", "why": "observation failed: " + r.obsErr})
							return
						}
						tw.Emit(ev)
						// The dispatcher was seen blocked in its own code, waiting for the next
						// commit, for the whole window: the step the behaviour expected will not
						// come.  TLC judges the state (C18_IdleMeansPublished); if nothing is
						// pending the real code simply had less to publish than the specification
						// said - conformance drift, reported by the check, not a failed run.
						tw.Emit(map[string]interface{}{"t": b.ID, "a": "Completed", "quiet": q.what})
						return
					}
					if inc, ok := p.(vC18Inconclusive); ok {
						if ev, ok := r.probe(); ok {
							tw.Emit(ev)
						}
						timeouts++
						tw.Emit(map[string]interface{}{"t": b.ID, "a": "Abandoned", "why": inc.msg})
						return
					}
					panic(p)
				}
			}()
			if fc, ok := b.Cfg["foreign"].(map[string]interface{}); ok {
				r.foreignNS = vStrDef(fc, "ns", "c18y")
				r.ownNS = vStrDef(fc, "own", "")
				r.startForeign()
			}
			for _, id := range nodes {
				r.start(r.nodes[id])
			}
			open := vC18Event{T: b.ID, A: "Open", Args: map[string]interface{}{}, St: r.state(nil)}
			tw.Emit(open)
			tw.w.Flush()
			for _, st := range b.Steps {
				tw.Emit(r.step(st))
				tw.w.Flush()
			}
			tw.Emit(map[string]interface{}{"t": b.ID, "a": "Completed"})
		}()
		tw.w.Flush()
		if timeouts >= 3 {
			break
		}
	}
}
