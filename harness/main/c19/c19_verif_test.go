//go:build verif

package main

// C19 harness, package main: the command line entry point.  The server is
// launched exactly as the binary does it - a cli.App with the flags of
// getFlags() and the action `start` - with a --config file or without one,
// under the environment variable LIFTBRIDGE_TELEMETRY_ENABLED, and
// http.DefaultTransport replaced by a recorder.  A server started this way
// cannot be stopped (start never returns the handle): it lives until the test
// process exits, so behaviours here have no Stop step.  Same trace format as
// the other C19 harnesses; TLC judges.

import (
	"bufio"
	"bytes"
	"encoding/json"
	"fmt"
	"io"
	"net"
	"net/http"
	"os"
	"path/filepath"
	"regexp"
	"sort"
	"strings"
	"sync"
	"testing"
	"time"

	"github.com/urfave/cli"
)

type vC19Req struct {
	url    string
	body   []byte
	header http.Header
	id     string
}

type vC19Recorder struct {
	mu   sync.Mutex
	reqs []vC19Req
}

func (r *vC19Recorder) RoundTrip(req *http.Request) (*http.Response, error) {
	var body []byte
	if req.Body != nil {
		body, _ = io.ReadAll(req.Body)
		req.Body.Close()
	}
	var p map[string]interface{}
	id := ""
	if json.Unmarshal(body, &p) == nil {
		id, _ = p["instance_id"].(string)
	}
	r.mu.Lock()
	r.reqs = append(r.reqs, vC19Req{url: req.URL.String(), body: body, header: req.Header.Clone(), id: id})
	r.mu.Unlock()
	return &http.Response{StatusCode: 200, Status: "200 OK", Body: io.NopCloser(bytes.NewReader(nil)),
		Header: http.Header{}, Request: req, Proto: "HTTP/1.1", ProtoMajor: 1, ProtoMinor: 1}, nil
}

func (r *vC19Recorder) from(k int) []vC19Req {
	r.mu.Lock()
	defer r.mu.Unlock()
	return append([]vC19Req{}, r.reqs[k:]...)
}

func (r *vC19Recorder) count() int {
	r.mu.Lock()
	defer r.mu.Unlock()
	return len(r.reqs)
}

var vC19UUID4 = regexp.MustCompile(`^[0-9a-f]{8}-[0-9a-f]{4}-4[0-9a-f]{3}-[89ab][0-9a-f]{3}-[0-9a-f]{12}$`)

func vC19Paths(prefix string, v interface{}, out map[string]bool) {
	if m, ok := v.(map[string]interface{}); ok {
		for k, x := range m {
			p := k
			if prefix != "" {
				p = prefix + "." + k
			}
			out[p] = true
			vC19Paths(p, x, out)
		}
	}
}

func vC19List(m map[string]bool) []string {
	out := []string{}
	for k := range m {
		out = append(out, k)
	}
	sort.Strings(out)
	return out
}

func vC19Port(t *testing.T) int {
	l, err := net.Listen("tcp", "127.0.0.1:0")
	if err != nil {
		t.Fatalf("INCONCLUSIVE: no free port: %v", err)
	}
	defer l.Close()
	return l.Addr().(*net.TCPAddr).Port
}

type vC19Beh struct {
	ID    int                      `json:"id"`
	Cfg   map[string]interface{}   `json:"cfg"`
	Steps []map[string]interface{} `json:"steps"`
}

const (
	vC19EnvVar = "LIFTBRIDGE_TELEMETRY_ENABLED"
	vC19Window = 1700 * time.Millisecond
)

func TestVerifC19CLI(t *testing.T) {
	p := os.Getenv("VERIF_STIMULI")
	if p == "" {
		t.Skip("VERIF_STIMULI not set")
	}
	raw, err := os.ReadFile(p)
	if err != nil {
		t.Fatal(err)
	}
	var sf struct {
		Behaviours []vC19Beh `json:"behaviours"`
	}
	if err := json.Unmarshal(raw, &sf); err != nil {
		t.Fatal(err)
	}
	f, err := os.Create(os.Getenv("VERIF_TRACE_OUT"))
	if err != nil {
		t.Fatal(err)
	}
	defer f.Close()
	w := bufio.NewWriter(f)
	defer w.Flush()
	emit := func(v interface{}) {
		b, _ := json.Marshal(v)
		w.Write(b)
		w.WriteByte('\n')
	}
	rec := &vC19Recorder{}
	old := http.DefaultTransport
	http.DefaultTransport = rec
	defer func() { http.DefaultTransport = old }()
	root, err := os.MkdirTemp("", "c19cli")
	if err != nil {
		t.Fatalf("INCONCLUSIVE: %v", err)
	}
	defer os.RemoveAll(root)
	os.Unsetenv(vC19EnvVar)

	for _, b := range sf.Behaviours {
		route := b.Cfg["route"].(map[string]interface{})
		str := func(k string) string { return route[k].(string) }
		dir := filepath.Join(root, fmt.Sprintf("n%d", b.ID))
		dataDir := filepath.Join(dir, "data")
		os.MkdirAll(dir, 0o755)
		startIdx := rec.count()
		last := 0
		launched, up := false, false
		secrets := []string{dataDir}
		state := func() map[string]interface{} {
			reqs := rec.from(startIdx) // the servers of this test run one after the other; older ones are silent by then or attributed by id
			mine := []vC19Req{}
			id := ""
			if d, err := os.ReadFile(filepath.Join(dataDir, ".instance_id")); err == nil {
				id = strings.TrimSpace(string(d))
			}
			for _, q := range reqs {
				if known[q.id] && q.id != id {
					continue // a periodic report of an earlier server of this test
				}
				mine = append(mine, q)
			}
			keys, hdrs, leaks := map[string]bool{}, map[string]bool{}, map[string]bool{}
			urlOK, idsOK := true, true
			host, _ := os.Hostname()
			for _, q := range mine {
				var pl interface{}
				if json.Unmarshal(q.body, &pl) == nil {
					vC19Paths("", pl, keys)
				} else {
					keys["<not json>"] = true
				}
				for h := range q.header {
					hdrs[h] = true
				}
				if !vC19UUID4.MatchString(q.id) || q.id == host {
					idsOK = false
				}
				hay := q.url + "\n" + string(q.body)
				for h, vs := range q.header {
					hay += "\n" + h + ": " + strings.Join(vs, ",")
				}
				for _, s := range secrets {
					if strings.Contains(hay, s) {
						leaks["datadir"] = true
					}
				}
				if !strings.HasPrefix(q.url, "https://telemetry.basekick.net/") || strings.Contains(q.url, "?") {
					urlOK = false
				}
			}
			last = len(mine)
			// whether main.start configured telemetry on is seen from the outside by the instance-id file that
			// telemetry.New creates in the data directory
			return map[string]interface{}{"enabled": id != "", "collector": up && id != "", "userData": false, "sent": len(mine),
				"keys": vC19List(keys), "hdrs": vC19List(hdrs), "leaks": vC19List(leaks), "urlOK": urlOK, "idsOK": idsOK, "aged": false}
		}
		waitMore := func() {
			deadline := time.Now().Add(vC19Window)
			for time.Now().Before(deadline) {
				n := 0
				for _, q := range rec.from(startIdx) {
					if !known[q.id] {
						n++
					}
				}
				if n > last {
					return
				}
				time.Sleep(5 * time.Millisecond)
			}
		}
		emit(map[string]interface{}{"a": "Open", "t": b.ID, "route": route, "st": state(), "obs": map[string]interface{}{"a": "Open", "err": ""}})
		for _, s := range b.Steps {
			a := s["a"].(string)
			obs := map[string]interface{}{"a": a, "err": ""}
			switch a {
			case "LoadConfig":
				// main.start loads the configuration and starts the server in one go
				port, natsPort := vC19Port(t), vC19Port(t)
				natsConf := filepath.Join(dir, "nats.conf")
				os.WriteFile(natsConf, []byte(fmt.Sprintf("host: 127.0.0.1\nport: %d\n", natsPort)), 0o644)
				args := []string{"liftbridge", "--data-dir", dataDir, "--port", fmt.Sprint(port), "--raft-bootstrap-seed",
					"--embedded-nats-config", natsConf, "--nats-servers", fmt.Sprintf("nats://127.0.0.1:%d", natsPort),
					"--id", fmt.Sprintf("cli%d", b.ID), "--level", "error"}
				if route["hasFile"].(bool) {
					y := "logging:\n  level: error\n"
					tel := ""
					if str("ival") != "default" && str("ivalBy") == "file" {
						tel += fmt.Sprintf("  interval:\n    seconds: %d\n", map[string]int{"custom": 1, "zero": 0, "negative": -5}[str("ival")])
					}
					if str("file") != "unset" {
						tel += "  enabled: " + str("file") + "\n"
					}
					if tel != "" {
						y += "telemetry:\n" + tel
					}
					switch route["other"] {
					case "activityOn":
						y += "activity.stream:\n  enabled: true\n"
					case "activityOff":
						y += "activity.stream:\n  enabled: false\n"
					case "full":
						y += "activity.stream:\n  enabled: true\n  publish.timeout: 1m\nstreams:\n  compact.enabled: true\n  concurrency.control: true\nbatch.max:\n  messages: 10\nmetadata.cache.max.age: 1m\n"
					}
					cf := filepath.Join(dir, "liftbridge.yaml")
					os.WriteFile(cf, []byte(y), 0o644)
					args = append(args, "--config", cf)
				}
				if str("env") != "unset" {
					os.Setenv(vC19EnvVar, str("env"))
				}
				app := cli.NewApp()
				app.Name = "liftbridge"
				app.Flags = getFlags()
				app.Action = start
				done := make(chan error, 1)
				go func() {
					defer func() {
						if r := recover(); r != nil {
							done <- fmt.Errorf("panic: %v", r)
						}
					}()
					done <- app.Run(args)
				}()
				launched = true
				deadline := time.Now().Add(30 * time.Second)
				for !up {
					select {
					case err := <-done:
						obs["err"] = fmt.Sprintf("start returned: %v", err)
						deadline = time.Now()
					default:
					}
					if c, err := net.DialTimeout("tcp", fmt.Sprintf("127.0.0.1:%d", port), 200*time.Millisecond); err == nil {
						c.Close()
						up = true
						break
					}
					if time.Now().After(deadline) {
						if obs["err"] == "" {
							obs["err"] = "server did not come up"
						}
						break
					}
					time.Sleep(10 * time.Millisecond)
				}
				os.Unsetenv(vC19EnvVar)
			case "Start":
				if launched {
					waitMore()
				}
			case "Tick":
				waitMore()
			}
			emit(map[string]interface{}{"a": a, "t": b.ID, "route": route, "st": state(), "obs": obs})
		}
		if d, err := os.ReadFile(filepath.Join(dataDir, ".instance_id")); err == nil {
			known[strings.TrimSpace(string(d))] = true
		}
	}
	emit(map[string]interface{}{"a": "Global", "t": 0, "unattributed": 0, "total": rec.count()})
}

var known = map[string]bool{}
