//go:build verif

package protocol

// C14 harness, package protocol: the decision table of spec/Envelope.tla is
// concretised to bytes and fed to checkEnvelope and to every Unmarshal*
// function.  The harness only records what the real code returned (panics are
// recovered and recorded as "Crash"); TLC judges the records.

import (
	"bufio"
	"bytes"
	"encoding/json"
	"fmt"
	"hash/crc32"
	"math/rand"
	"os"
	"sort"
	"strings"
	"testing"

	pb1 "github.com/golang/protobuf/proto"
	client "github.com/liftbridge-io/liftbridge-api/v2/go"
	"google.golang.org/protobuf/proto"
	"google.golang.org/protobuf/reflect/protoreflect"
)

type c14Cfg struct {
	Lens  []int `json:"lens"`
	HLs   []int `json:"hls"`
	Fills int   `json:"fills"`
	Seed  int64 `json:"seed"`
	RT    int   `json:"rt"`   // round-trip messages per type
	MaxN  int   `json:"maxN"` // exact-size round trips 0..MaxN
	// replay of single records: list of {key, hl, pbOK, fill}
	Only []c14Only `json:"only"`
}

type c14Only struct {
	Key  c14Key `json:"key"`
	HL   int    `json:"hl"`
	PbOK bool   `json:"pbOK"`
	Fill int    `json:"fill"`
}

type c14Key struct {
	Len        int  `json:"len"`
	MagicOK    bool `json:"magicOK"`
	VerOK      bool `json:"verOK"`
	CrcFlag    bool `json:"crcFlag"`
	OtherFlags bool `json:"otherFlags"`
	TypeOK     bool `json:"typeOK"`
	CrcOK      bool `json:"crcOK"`
}

type c14CE struct {
	K   string `json:"k"`
	Why string `json:"why"`
	Off int    `json:"off"`
	N   int    `json:"n"`
}

type c14UM struct {
	K    string `json:"k"`
	Why  string `json:"why"`
	Same bool   `json:"same"`
}

type c14Out struct {
	CE c14CE `json:"ce"`
	UM c14UM `json:"um"`
}

type c14Rec struct {
	HL    int      `json:"hl"`
	PbOK  bool     `json:"pbOK"`
	Fill  int      `json:"fill"`
	Pb    []c14Out `json:"pb"`   // distinct outcomes over the protobuf decoders
	NPb   int      `json:"npb"`  // number of protobuf decoders executed
	Repl  []c14Out `json:"repl"` // outcome of UnmarshalReplicationResponse (pbOK records only)
	NRepl int      `json:"nrepl"`
}

type c14Decoder struct {
	name string
	typ  msgType
	newM func() pb1.Message // internal.pb.go is gogo-generated (APIv1); pb1.MessageV2 gives the reflective view
	um   func([]byte) (pb1.Message, error)
	mar  func(pb1.Message) ([]byte, error)
}

func c14Decoders() []c14Decoder {
	return []c14Decoder{
		{"Publish", msgTypePublish, func() pb1.Message { return new(client.Message) },
			func(b []byte) (pb1.Message, error) { return UnmarshalPublish(b) },
			func(m pb1.Message) ([]byte, error) { return MarshalPublish(m.(*client.Message)) }},
		{"Ack", msgTypeAck, func() pb1.Message { return new(client.Ack) },
			func(b []byte) (pb1.Message, error) { return UnmarshalAck(b) },
			func(m pb1.Message) ([]byte, error) { return MarshalAck(m.(*client.Ack)) }},
		{"ReplicationRequest", msgTypeReplicationRequest, func() pb1.Message { return new(ReplicationRequest) },
			func(b []byte) (pb1.Message, error) { return UnmarshalReplicationRequest(b) },
			func(m pb1.Message) ([]byte, error) { return MarshalReplicationRequest(m.(*ReplicationRequest)) }},
		{"RaftJoinRequest", msgTypeRaftJoinRequest, func() pb1.Message { return new(RaftJoinRequest) },
			func(b []byte) (pb1.Message, error) { return UnmarshalRaftJoinRequest(b) },
			func(m pb1.Message) ([]byte, error) { return MarshalRaftJoinRequest(m.(*RaftJoinRequest)) }},
		{"RaftJoinResponse", msgTypeRaftJoinResponse, func() pb1.Message { return new(RaftJoinResponse) },
			func(b []byte) (pb1.Message, error) { return UnmarshalRaftJoinResponse(b) },
			func(m pb1.Message) ([]byte, error) { return MarshalRaftJoinResponse(m.(*RaftJoinResponse)) }},
		{"LeaderEpochOffsetRequest", msgTypeLeaderEpochOffsetRequest, func() pb1.Message { return new(LeaderEpochOffsetRequest) },
			func(b []byte) (pb1.Message, error) { return UnmarshalLeaderEpochOffsetRequest(b) },
			func(m pb1.Message) ([]byte, error) {
				return MarshalLeaderEpochOffsetRequest(m.(*LeaderEpochOffsetRequest))
			}},
		{"LeaderEpochOffsetResponse", msgTypeLeaderEpochOffsetResponse, func() pb1.Message { return new(LeaderEpochOffsetResponse) },
			func(b []byte) (pb1.Message, error) { return UnmarshalLeaderEpochOffsetResponse(b) },
			func(m pb1.Message) ([]byte, error) {
				return MarshalLeaderEpochOffsetResponse(m.(*LeaderEpochOffsetResponse))
			}},
		{"PropagatedRequest", msgTypePropagatedRequest, func() pb1.Message { return new(PropagatedRequest) },
			func(b []byte) (pb1.Message, error) { return UnmarshalPropagatedRequest(b) },
			func(m pb1.Message) ([]byte, error) { return MarshalPropagatedRequest(m.(*PropagatedRequest)) }},
		{"PropagatedResponse", msgTypePropagatedResponse, func() pb1.Message { return new(PropagatedResponse) },
			func(b []byte) (pb1.Message, error) { return UnmarshalPropagatedResponse(b) },
			func(m pb1.Message) ([]byte, error) { return MarshalPropagatedResponse(m.(*PropagatedResponse)) }},
		{"ServerInfoRequest", msgTypeServerInfoRequest, func() pb1.Message { return new(ServerInfoRequest) },
			func(b []byte) (pb1.Message, error) { return UnmarshalServerInfoRequest(b) },
			func(m pb1.Message) ([]byte, error) { return MarshalServerInfoRequest(m.(*ServerInfoRequest)) }},
		{"ServerInfoResponse", msgTypeServerInfoResponse, func() pb1.Message { return new(ServerInfoResponse) },
			func(b []byte) (pb1.Message, error) { return UnmarshalServerInfoResponse(b) },
			func(m pb1.Message) ([]byte, error) { return MarshalServerInfoResponse(m.(*ServerInfoResponse)) }},
		{"PartitionStatusRequest", msgTypePartitionStatusRequest, func() pb1.Message { return new(PartitionStatusRequest) },
			func(b []byte) (pb1.Message, error) { return UnmarshalPartitionStatusRequest(b) },
			func(m pb1.Message) ([]byte, error) {
				return MarshalPartitionStatusRequest(m.(*PartitionStatusRequest))
			}},
		{"PartitionStatusResponse", msgTypePartitionStatusResponse, func() pb1.Message { return new(PartitionStatusResponse) },
			func(b []byte) (pb1.Message, error) { return UnmarshalPartitionStatusResponse(b) },
			func(m pb1.Message) ([]byte, error) {
				return MarshalPartitionStatusResponse(m.(*PartitionStatusResponse))
			}},
		{"PartitionNotification", msgTypePartitionNotification, func() pb1.Message { return new(PartitionNotification) },
			func(b []byte) (pb1.Message, error) { return UnmarshalPartitionNotification(b) },
			func(m pb1.Message) ([]byte, error) { return MarshalPartitionNotification(m.(*PartitionNotification)) }},
	}
}

const c14NumTypes = 15

// ---- classification of errors (conformance level only) ---------------------

func c14Why(err error) string {
	if err == nil {
		return ""
	}
	s := err.Error()
	switch {
	case strings.Contains(s, "missing envelope header"):
		return "short"
	case strings.Contains(s, "magic number"):
		return "magic"
	case strings.Contains(s, "unknown envelope protocol"):
		return "version"
	case strings.Contains(s, "header length"):
		return "headerlen"
	case strings.Contains(s, "MsgType mismatch"):
		return "type"
	case strings.Contains(s, "incorrect envelope header size"):
		return "crcsize"
	case strings.Contains(s, "crc mismatch"):
		return "crc"
	case strings.Contains(s, "not enough data"):
		return "notenough"
	}
	return "other"
}

// ---- concretisation --------------------------------------------------------

// c14Pos mirrors PayloadPos of the specification (where the harness places the
// payload message); it is part of the input construction, not of the verdict.
func c14Pos(length, hl int) int {
	if hl >= 8 && hl <= length {
		return hl
	}
	return 8
}

func c14Feasible(length, hl int, pbOK bool) bool {
	n := 0
	if p := c14Pos(length, hl); length >= p {
		n = length - p
	}
	if pbOK {
		return n != 1
	}
	return n >= 1
}

func c14FreeField(m pb1.Message) int {
	fds := pb1.MessageV2(m).ProtoReflect().Descriptor().Fields()
	for k := 15; k >= 1; k-- {
		if fds.ByNumber(protoreflect.FieldNumber(k)) == nil {
			return k
		}
	}
	return 0
}

// c14Pad returns q bytes (q = 0 or q >= 2) that are a valid protobuf field
// unknown to message type m.
func c14Pad(m pb1.Message, q int, rng *rand.Rand) []byte {
	if q == 0 {
		return nil
	}
	k := c14FreeField(m)
	if k == 0 || q < 2 || q-2 > 127 {
		panic("cannot pad")
	}
	out := make([]byte, q)
	out[0] = byte(k<<3 | 2)
	out[1] = byte(q - 2)
	for j := 2; j < q; j++ {
		out[j] = byte(rng.Intn(256))
	}
	return out
}

// c14ValidPb returns exactly n bytes that parse as message type of d.
func c14ValidPb(d *c14Decoder, n int, rng *rand.Rand) []byte {
	if n == 0 {
		return []byte{}
	}
	if n == 1 {
		panic("no one-byte protobuf message")
	}
	for try := 0; try < 8; try++ {
		m := d.newM()
		c14Fill(pb1.MessageV2(m).ProtoReflect(), rng, 0, n)
		b, err := proto.MarshalOptions{Deterministic: true}.Marshal(pb1.MessageV2(m))
		if err != nil {
			continue
		}
		q := n - len(b)
		if q == 0 || (q >= 2 && q-2 <= 127) {
			return append(b, c14Pad(m, q, rng)...)
		}
	}
	return c14Pad(d.newM(), n, rng)
}

// c14InvalidPb returns n >= 1 bytes that no protobuf parser accepts.
func c14InvalidPb(n int, rng *rand.Rand) []byte {
	out := make([]byte, n)
	for j := range out {
		out[j] = byte(rng.Intn(256))
	}
	switch v := rng.Intn(3); {
	case v == 0 || n < 2:
		out[0] = 0x07 // field number 0, wire type 7
	case v == 1:
		out[0], out[1] = 0x0A, 0x7F // length-delimited field longer than the rest (n-2 < 127 always here)
		if n-2 >= 127 {
			out[0] = 0x07
		}
	default:
		for j := range out { // truncated or overflowing varint tag
			out[j] = 0xFF
		}
	}
	return out
}

type c14Concrete struct {
	data    []byte
	payload []byte // the bytes placed at the payload position
}

func c14Concretise(k c14Key, hl int, pbOK bool, d *c14Decoder, repl bool, typ msgType, rng *rand.Rand) c14Concrete {
	data := make([]byte, k.Len)
	hdr := make([]byte, 8)
	copy(hdr, envelopeMagicNumber)
	if !k.MagicOK {
		j := rng.Intn(4)
		hdr[j] ^= byte(1 + rng.Intn(255))
	}
	if !k.VerOK {
		hdr[4] = byte(1 + rng.Intn(255))
	}
	hdr[5] = byte(hl)
	if k.CrcFlag {
		hdr[6] |= 1
	}
	if k.OtherFlags {
		hdr[6] |= byte(1+rng.Intn(127)) << 1
	}
	if k.TypeOK {
		hdr[7] = byte(typ)
	} else {
		o := byte(rng.Intn(256))
		for o == byte(typ) {
			o = byte(rng.Intn(256))
		}
		if rng.Intn(2) == 0 { // another defined type
			o = o % c14NumTypes
			if o == byte(typ) {
				o = (o + 1) % c14NumTypes
			}
		}
		hdr[7] = o
	}
	copy(data, hdr)
	p := c14Pos(k.Len, hl)
	var payload []byte
	if k.Len >= p {
		for j := 8; j < p; j++ {
			data[j] = byte(rng.Intn(256))
		}
		n := k.Len - p
		switch {
		case repl:
			payload = make([]byte, n)
			for j := range payload {
				payload[j] = byte(rng.Intn(256))
			}
		case pbOK:
			payload = c14ValidPb(d, n, rng)
		default:
			payload = c14InvalidPb(n, rng)
		}
		copy(data[p:], payload)
	}
	if k.Len >= 12 && hl >= 12 && hl <= k.Len {
		c := crc32.Checksum(data[hl:], crc32cTable)
		if !k.CrcOK {
			c ^= uint32(1 + rng.Intn(1<<31-1))
		}
		Encoding.PutUint32(data[8:], c)
	}
	return c14Concrete{data: data, payload: payload}
}

// ---- execution ---------------------------------------------------------------

func c14CheckEnvelope(data []byte, typ msgType) (out c14CE) {
	defer func() {
		if r := recover(); r != nil {
			out = c14CE{K: "Crash", Why: fmt.Sprint(r), Off: -1, N: -1}
		}
	}()
	cp := append([]byte(nil), data...)
	payload, err := checkEnvelope(cp, typ)
	if err != nil {
		return c14CE{K: "Err", Why: c14Why(err), Off: -1, N: -1}
	}
	n := len(payload)
	off := -2 // not a suffix of the input
	if n <= len(data) && bytes.Equal(payload, data[len(data)-n:]) {
		off = len(data) - n
	}
	return c14CE{K: "Ok", Off: off, N: n}
}

func c14Unmarshal(d *c14Decoder, c c14Concrete, ce c14CE) (out c14UM) {
	defer func() {
		if r := recover(); r != nil {
			out = c14UM{K: "Crash", Why: fmt.Sprint(r)}
		}
	}()
	m, err := d.um(append([]byte(nil), c.data...))
	if err != nil {
		why := c14Why(err)
		if why == "other" && ce.K == "Ok" {
			why = "pb"
		}
		return c14UM{K: "Err", Why: why}
	}
	ref := d.newM()
	same := c.payload != nil && proto.Unmarshal(c.payload, pb1.MessageV2(ref)) == nil && proto.Equal(pb1.MessageV2(ref), pb1.MessageV2(m))
	return c14UM{K: "Ok", Same: same}
}

func c14UnmarshalRepl(c c14Concrete) (out c14UM) {
	defer func() {
		if r := recover(); r != nil {
			out = c14UM{K: "Crash", Why: fmt.Sprint(r)}
		}
	}()
	epoch, hw, rest, err := UnmarshalReplicationResponse(append([]byte(nil), c.data...))
	if err != nil {
		return c14UM{K: "Err", Why: c14Why(err)}
	}
	same := len(c.payload) >= 16 && epoch == Encoding.Uint64(c.payload[:8]) &&
		hw == int64(Encoding.Uint64(c.payload[8:16])) && bytes.Equal(rest, c.payload[16:])
	return c14UM{K: "Ok", Same: same}
}

func c14Distinct(outs []c14Out) []c14Out {
	seen := map[c14Out]bool{}
	res := []c14Out{}
	for _, o := range outs {
		if o.CE.K == "Crash" { // panic texts carry lengths; keep one class
			o.CE.Why = "panic"
		}
		if o.UM.K == "Crash" {
			o.UM.Why = "panic"
		}
		if !seen[o] {
			seen[o] = true
			res = append(res, o)
		}
	}
	sort.Slice(res, func(a, b int) bool { return fmt.Sprint(res[a]) < fmt.Sprint(res[b]) })
	return res
}

func c14Run(k c14Key, hl int, pbOK bool, fill int, seed int64, decs []c14Decoder) c14Rec {
	rec := c14Rec{HL: hl, PbOK: pbOK, Fill: fill, Repl: []c14Out{}}
	h := int64(k.Len)*1000003 + int64(hl)*7919 + int64(fill)*104729
	for j, b := range []bool{k.MagicOK, k.VerOK, k.CrcFlag, k.OtherFlags, k.TypeOK, k.CrcOK, pbOK} {
		if b {
			h += 1 << (40 + uint(j))
		}
	}
	rng := rand.New(rand.NewSource(seed*2654435761 + h))
	outs := []c14Out{}
	for di := range decs {
		d := &decs[di]
		c := c14Concretise(k, hl, pbOK, d, false, d.typ, rng)
		ce := c14CheckEnvelope(c.data, d.typ)
		outs = append(outs, c14Out{CE: ce, UM: c14Unmarshal(d, c, ce)})
		rec.NPb++
	}
	rec.Pb = c14Distinct(outs)
	if pbOK {
		c := c14Concretise(k, hl, true, nil, true, msgTypeReplicationResponse, rng)
		ce := c14CheckEnvelope(c.data, msgTypeReplicationResponse)
		rec.Repl = c14Distinct([]c14Out{{CE: ce, UM: c14UnmarshalRepl(c)}})
		rec.NRepl = 1
	}
	return rec
}

// abstraction of real bytes (used for marshalled messages)
func c14Abstract(data []byte, typ msgType) map[string]interface{} {
	get := func(j int) byte {
		if j < len(data) {
			return data[j]
		}
		return 0
	}
	crcOK := false
	hl := int(get(5))
	if len(data) >= 12 && hl >= 12 && hl <= len(data) {
		crcOK = crc32.Checksum(data[hl:], crc32cTable) == Encoding.Uint32(data[8:])
	}
	return map[string]interface{}{
		"len": len(data), "magicOK": len(data) >= 4 && bytes.Equal(data[:4], envelopeMagicNumber),
		"verOK": get(4) == 0, "hl": hl, "crcFlag": get(6)&1 == 1, "otherFlags": get(6)&0xFE != 0,
		"typeOK": get(7) == byte(typ), "crcOK": crcOK,
	}
}

func TestVerifC14Table(t *testing.T) {
	p := os.Getenv("VERIF_STIMULI")
	if p == "" {
		t.Skip("VERIF_STIMULI not set")
	}
	raw, err := os.ReadFile(p)
	if err != nil {
		t.Fatal(err)
	}
	var cfg c14Cfg
	if err := json.Unmarshal(raw, &cfg); err != nil {
		t.Fatal(err)
	}
	f, err := os.Create(os.Getenv("VERIF_TRACE_OUT"))
	if err != nil {
		t.Fatal(err)
	}
	defer f.Close()
	w := bufio.NewWriterSize(f, 1<<20)
	defer w.Flush()
	emit := func(v interface{}) {
		b, err := json.Marshal(v)
		if err != nil {
			t.Fatal(err)
		}
		w.Write(b)
		w.WriteByte('\n')
	}
	decs := c14Decoders()
	if len(decs)+1 != c14NumTypes {
		t.Fatalf("decoder table has %d entries", len(decs))
	}
	emit(map[string]interface{}{"a": "Open", "t": 0})
	tid := 0
	if len(cfg.Only) > 0 {
		for _, o := range cfg.Only {
			tid++
			emit(map[string]interface{}{"a": "Table", "t": tid, "level": "protocol", "partial": true, "key": o.Key,
				"recs": []c14Rec{c14Run(o.Key, o.HL, o.PbOK, o.Fill, cfg.Seed, decs)}})
		}
		return
	}
	bools := []bool{false, true}
	for _, ln := range cfg.Lens {
		for bits := 0; bits < 64; bits++ {
			k := c14Key{Len: ln, MagicOK: bits&1 != 0, VerOK: bits&2 != 0, CrcFlag: bits&4 != 0,
				OtherFlags: bits&8 != 0, TypeOK: bits&16 != 0, CrcOK: bits&32 != 0}
			recs := []c14Rec{}
			for _, hl := range cfg.HLs {
				for _, pbOK := range bools {
					if !c14Feasible(ln, hl, pbOK) {
						continue
					}
					for fill := 0; fill < cfg.Fills; fill++ {
						recs = append(recs, c14Run(k, hl, pbOK, fill, cfg.Seed, decs))
					}
				}
			}
			tid++
			emit(map[string]interface{}{"a": "Table", "t": tid, "level": "protocol", "partial": false, "key": k, "recs": recs})
		}
	}
	// round trips: random messages of every type, and every exact payload size
	rng := rand.New(rand.NewSource(cfg.Seed))
	rts := []map[string]interface{}{}
	one := func(d *c14Decoder, m pb1.Message) {
		rec := map[string]interface{}{"dec": "pb", "type": d.name, "k": "Ok", "same": false, "n": -1,
			"i": map[string]interface{}{}}
		func() {
			defer func() {
				if r := recover(); r != nil {
					rec["k"] = "Crash"
				}
			}()
			env, err := d.mar(m)
			if err != nil {
				rec["k"] = "Err"
				return
			}
			rec["i"] = c14Abstract(env, d.typ)
			rec["n"] = len(env) - 8
			got, err := d.um(env)
			if err != nil {
				rec["k"] = "Err"
				return
			}
			rec["same"] = proto.Equal(pb1.MessageV2(m), pb1.MessageV2(got))
		}()
		rts = append(rts, rec)
	}
	for di := range decs {
		d := &decs[di]
		for j := 0; j < cfg.RT; j++ {
			m := d.newM()
			c14Fill(pb1.MessageV2(m).ProtoReflect(), rng, 0, 1<<20)
			one(d, m)
		}
		for n := 0; n <= cfg.MaxN; n++ {
			if n == 1 {
				continue
			}
			m := d.newM()
			if err := proto.Unmarshal(c14ValidPb(d, n, rng), pb1.MessageV2(m)); err != nil {
				t.Fatalf("generator produced invalid protobuf: %v", err)
			}
			one(d, m)
		}
	}
	// replication response framing: header written by WriteReplicationResponseHeader
	for n := 16; n <= 16+cfg.MaxN; n++ {
		buf := new(bytes.Buffer)
		WriteReplicationResponseHeader(buf)
		pl := make([]byte, n)
		rng.Read(pl)
		buf.Write(pl)
		c := c14Concrete{data: buf.Bytes(), payload: pl}
		um := c14UnmarshalRepl(c)
		rts = append(rts, map[string]interface{}{"dec": "repl", "type": "ReplicationResponse", "k": um.K, "same": um.Same,
			"n": n, "i": c14Abstract(c.data, msgTypeReplicationResponse)})
	}
	tid++
	emit(map[string]interface{}{"a": "RoundTrip", "t": tid, "recs": rts})
}

// ---- random protobuf messages ------------------------------------------------

var c14Strings = []string{"", "a", "foo", "foo.bar", "héllo", "\x00", "stream-1", strings.Repeat("x", 200)}

func c14Scalar(fd protoreflect.FieldDescriptor, rng *rand.Rand, budget int) protoreflect.Value {
	i64 := []int64{0, 1, -1, 127, 128, 1 << 31, -(1 << 31), 1<<63 - 1, -(1 << 63), rng.Int63()}
	switch fd.Kind() {
	case protoreflect.BoolKind:
		return protoreflect.ValueOfBool(rng.Intn(2) == 0)
	case protoreflect.EnumKind:
		vs := fd.Enum().Values()
		return protoreflect.ValueOfEnum(vs.Get(rng.Intn(vs.Len())).Number())
	case protoreflect.Int32Kind, protoreflect.Sint32Kind, protoreflect.Sfixed32Kind:
		return protoreflect.ValueOfInt32(int32(i64[rng.Intn(len(i64))]))
	case protoreflect.Uint32Kind, protoreflect.Fixed32Kind:
		return protoreflect.ValueOfUint32(uint32(i64[rng.Intn(len(i64))]))
	case protoreflect.Int64Kind, protoreflect.Sint64Kind, protoreflect.Sfixed64Kind:
		return protoreflect.ValueOfInt64(i64[rng.Intn(len(i64))])
	case protoreflect.Uint64Kind, protoreflect.Fixed64Kind:
		return protoreflect.ValueOfUint64(uint64(i64[rng.Intn(len(i64))]))
	case protoreflect.FloatKind:
		return protoreflect.ValueOfFloat32(float32(rng.NormFloat64()))
	case protoreflect.DoubleKind:
		return protoreflect.ValueOfFloat64(rng.NormFloat64())
	case protoreflect.StringKind:
		s := c14Strings[rng.Intn(len(c14Strings))]
		if len(s) > budget {
			s = ""
		}
		return protoreflect.ValueOfString(s)
	case protoreflect.BytesKind:
		n := rng.Intn(12)
		if n > budget {
			n = 0
		}
		b := make([]byte, n)
		rng.Read(b)
		return protoreflect.ValueOfBytes(b)
	}
	panic("unhandled kind " + fd.Kind().String())
}

// c14Fill sets a random subset of the fields of m; budget is a soft bound on
// the encoded size (small budgets produce small messages).
func c14Fill(m protoreflect.Message, rng *rand.Rand, depth int, budget int) {
	fds := m.Descriptor().Fields()
	for j := 0; j < fds.Len(); j++ {
		fd := fds.Get(j)
		if rng.Intn(10) < 4 || budget < 4 {
			continue
		}
		b := budget / 2
		switch {
		case fd.IsMap():
			mp := m.Mutable(fd).Map()
			for e := rng.Intn(3); e > 0; e-- {
				kv := c14Scalar(fd.MapKey(), rng, b/4)
				if fd.MapValue().Kind() == protoreflect.MessageKind {
					if depth >= 3 {
						continue
					}
					v := mp.NewValue()
					c14Fill(v.Message(), rng, depth+1, b/4)
					mp.Set(kv.MapKey(), v)
				} else {
					mp.Set(kv.MapKey(), c14Scalar(fd.MapValue(), rng, b/4))
				}
			}
		case fd.IsList():
			l := m.Mutable(fd).List()
			for e := rng.Intn(3); e > 0; e-- {
				if fd.Kind() == protoreflect.MessageKind {
					if depth >= 3 {
						continue
					}
					v := l.NewElement()
					c14Fill(v.Message(), rng, depth+1, b/4)
					l.Append(v)
				} else {
					l.Append(c14Scalar(fd, rng, b/4))
				}
			}
		case fd.Kind() == protoreflect.MessageKind:
			if depth >= 3 {
				continue
			}
			c14Fill(m.Mutable(fd).Message(), rng, depth+1, b)
		default:
			m.Set(fd, c14Scalar(fd, rng, b))
		}
	}
}
